module verifsim

go 1.25.0

require github.com/markkurossi/mpc v0.0.0

require github.com/markkurossi/crypto v0.0.0-20240520115340-daed3f9a1082 // indirect

replace github.com/markkurossi/mpc => /repo
