module verifsim

go 1.25.0

require (
	github.com/markkurossi/crypto v0.0.0-20240520115340-daed3f9a1082
	github.com/markkurossi/mpc v0.0.0
	github.com/markkurossi/tabulate v0.0.0-20251126123558-a08056f6160f
	github.com/markkurossi/text v0.0.0-20250315092940-9a5813bf8efa
)

require golang.org/x/text v0.32.0 // indirect

replace github.com/markkurossi/mpc => /repo
