// Package sharedcirc is the simulated world for C17 (build variant c17):
// several tasks garble, evaluate, compute and release on one shared
// circuit.Circuit; scheduling points are the atomic operations on the lazily
// created pool, every Pool.Get/Put (the simulated pool may return any pooled
// scratch, a new one, or drop items) and the loop heads inside Garble, Eval
// and Compute.
package sharedcirc

import (
	"fmt"

	"verifsim/sim/rt"
	"verifsim/sim/simrand"
	"verifsim/worlds/core"
	"verifsim/worlds/sharedcirc/ops"

	"verifsim/gen"
)

func init() {
	core.Register("C17", func(tier string) core.World { return &world{tier: tier} })
}

type world struct{ tier string }

type sample struct {
	Circuit string
	Tasks   []string
}

func (w *world) Run(t *rt.Tape, trace bool) *core.Result {
	res := &core.Result{Reach: map[string]int{}}
	seed := core.BeginRun(t)
	p := ops.DrawTier(t, w.tier)
	res.Sample = sample{Circuit: gen.Describe(p.Circ), Tasks: p.Describe()}
	res.Class = fmt.Sprintf("tasks=%d", len(p.Tasks))
	k := len(p.Tasks)
	conc := make([]*ops.Result, k)
	shared := ops.CloneCircuit(p.Circ)
	before := ops.Snapshot(shared)
	rr := rt.Run(rt.Config{Trace: trace}, t, func() {
		for i := 0; i < k; i++ {
			i := i
			rt.GoParty(fmt.Sprintf("t%d", i), "worker", func() {
				conc[i] = ops.Exec(p, shared, i, simrand.New(seed, fmt.Sprintf("task-%d", i)))
			})
		}
	})
	core.Finish(res, rr)
	res.Nontrivial = rr.Switches > 2
	if res.Inconclusive != "" {
		return res
	}
	if len(rr.Crashed) > 0 {
		res.Fail = &core.Failure{Clause: "panic", Detail: core.CrashDetail(rr)}
		return res
	}
	if core.Stuck(rr) {
		res.Fail = &core.Failure{Clause: "did-not-terminate", Detail: fmt.Sprintf("%v %v", rr.Outcome, rr.Blocked)}
		return res
	}
	for _, r := range conc {
		if r != nil && r.Violation != "" {
			res.Fail = &core.Failure{Clause: r.Clause, Detail: r.Violation}
			return res
		}
	}
	if after := ops.Snapshot(shared); after != before {
		res.Fail = &core.Failure{Clause: "shared-circuit-modified", Detail: fmt.Sprintf("the calls wrote to the circuit value they share (signature up to the capacity of every member list, counts, gates)\nbefore:\n%s\nafter:\n%s", before, after)}
		return res
	}
	// each task alone, on a fresh copy of the circuit, from the same randomness
	solo := make([]*ops.Result, k)
	rr2 := rt.Run(rt.Config{}, t, func() {
		for i := 0; i < k; i++ {
			solo[i] = ops.Exec(p, ops.CloneCircuit(p.Circ), i, simrand.New(seed, fmt.Sprintf("task-%d", i)))
		}
	})
	res.Steps += rr2.Steps
	res.Hash = res.Hash[:32] + rr2.Hash[:32]
	for k, v := range rr2.Reach {
		res.Reach[k] += v
	}
	if len(rr2.Crashed) > 0 {
		res.Fail = &core.Failure{Clause: "panic", Detail: "run alone: " + core.CrashDetail(rr2)}
		return res
	}
	for i := range conc {
		if solo[i].Violation != "" {
			res.Fail = &core.Failure{Clause: solo[i].Clause, Detail: "run alone: " + solo[i].Violation}
			return res
		}
		if fmt.Sprint(conc[i].GarbleSums) != fmt.Sprint(solo[i].GarbleSums) {
			res.Fail = &core.Failure{Clause: "differs-from-run-alone", Detail: fmt.Sprintf("task %d: the garblings made concurrently (R, all wire labels, all table rows; checksums %v) differ from the ones the same calls return when run alone (%v)", i, conc[i].GarbleSums, solo[i].GarbleSums)}
			return res
		}
		res.Reach["garblings-compared-with-run-alone"] += len(conc[i].GarbleSums)
	}
	return res
}
