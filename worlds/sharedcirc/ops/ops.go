// Package ops holds the operation lists of the C17 world and their executor.
// The same code runs as tasks of the simulator (build variant c17) and as
// real goroutines under the race detector (cmd/racecomp).
package ops

import (
	"crypto/sha256"
	"encoding/binary"
	"encoding/hex"
	"fmt"
	"io"
	"math/big"
	"strings"

	"github.com/markkurossi/mpc/circuit"
	"github.com/markkurossi/mpc/ot"
	"github.com/markkurossi/mpc/types"

	"verifsim/gen"
	"verifsim/sim/rt"
)

// Operation kinds.
const (
	Garble = iota
	Eval
	Compute
	Release
	ReleaseAgain
	GarbleFail   // Garble with a randomness source that fails after Slot*8 bytes (a failing read is a legal fault of an io.Reader)
	GarbleBadKey // Garble with a key of invalid length
	numKinds
)

var kindNames = []string{"Garble", "Eval", "Compute", "Release", "ReleaseAgain", "GarbleFailAfter8x", "GarbleBadKey"}

// failingReader delivers n bytes and then fails.
type failingReader struct{ n int }

var errInjected = fmt.Errorf("injected read error")

func (f *failingReader) Read(p []byte) (int, error) {
	if f.n <= 0 {
		return 0, errInjected
	}
	k := len(p)
	if k > f.n {
		k = f.n
	}
	for i := 0; i < k; i++ {
		p[i] = byte(0x5a + f.n + i)
	}
	f.n -= k
	return k, nil
}

// Op is one operation of a task; Slot selects one of the task's garblings.
type Op struct {
	Kind int
	Slot int
	// Drop (Garble): the caller keeps the tables (R, wires, rows) and lets go of the *Garbled it
	// got - it never releases this garbling, which therefore stays valid for good
	Drop bool
}

func (o Op) String() string {
	if o.Kind == Compute {
		return "Compute"
	}
	if o.Drop {
		return fmt.Sprintf("%s(%d, handle dropped)", kindNames[o.Kind], o.Slot)
	}
	return fmt.Sprintf("%s(%d)", kindNames[o.Kind], o.Slot)
}

// Plan is one case: a circuit shared by all tasks and an operation list,
// inputs and key size per task.
type Plan struct {
	Circ   *circuit.Circuit
	Tasks  [][]Op
	Inputs [][]*big.Int
	KeyLen []int
	// ReuseKey[i]: task i keeps one key buffer, refills it before every Garble and passes that same
	// slice (the usual `var key [32]byte; for { rand.Read(key[:]); Garble(...) }`)
	ReuseKey []bool
	Want     [][]*big.Int
}

// Draw draws a plan from the tape.
func Draw(t *rt.Tape) *Plan { return DrawTier(t, "quick") }

// DrawTier draws a plan with tier-dependent bounds.
func DrawTier(t *rt.Tape, tier string) *Plan {
	p := &Plan{}
	mg := 120
	if tier == "thorough" {
		mg = 400
	}
	p.Circ = gen.Circuit(t, gen.CircuitOpts{MaxGates: mg, MaxIn: 10, MaxOutW: 6})
	if t.Choose(rt.SGen, 8) == 0 {
		p.Circ.Stats = circuit.Stats{} // a circuit built by hand: the gate statistics were never filled in
	}
	if bits := int(p.Circ.Inputs[0].Type.Bits); bits >= 3 && t.Choose(rt.SGen, 3) == 0 {
		// the first argument is a struct of three members (as the compiler and the native-format parser
		// build them: a member list grown by append, so the slice has spare capacity)
		p.Circ.Inputs = append(circuit.IO(nil), p.Circ.Inputs...)
		var members circuit.IO
		left := bits
		for m := 0; m < 3; m++ {
			w := bits / 3
			if m == 2 {
				w = left
			}
			left -= w
			members = append(members, circuit.IOArg{Name: fmt.Sprintf("m%d", m), Type: types.Info{Type: types.TUint, IsConcrete: true, Bits: types.Size(w)}})
		}
		p.Circ.Inputs[0].Compound = members
	}
	k := 2 + t.Choose(rt.SGen, 5)
	for i := 0; i < k; i++ {
		n := 1 + t.Choose(rt.SGen, 10)
		var ops []Op
		for j := 0; j < n; j++ {
			kind := []int{Garble, Garble, Garble, Eval, Eval, Compute, Release, Release, ReleaseAgain, GarbleFail, GarbleBadKey, Garble}[t.Choose(rt.SGen, 12)]
			o := Op{Kind: kind, Slot: t.Choose(rt.SGen, 2)}
			if kind == Garble && t.Choose(rt.SGen, 5) == 0 {
				o.Drop = true
			}
			if kind == GarbleFail {
				// fail after 0, 8, 16, ... bytes: before R, inside R, inside the k-th input label
				o.Slot = t.Choose(rt.SGen, 2*(2+p.Circ.Inputs.Size()))
			}
			ops = append(ops, o)
		}
		if t.Choose(rt.SGen, 2) == 0 {
			ops = append([]Op{{Kind: Garble, Slot: 0}}, ops...) // first use races on the lazy pool creation
		}
		p.Tasks = append(p.Tasks, ops)
		in := gen.Inputs(t, p.Circ)
		p.Inputs = append(p.Inputs, in)
		p.Want = append(p.Want, gen.Eval(p.Circ, in))
		p.KeyLen = append(p.KeyLen, []int{32, 16, 24}[t.Choose(rt.SGen, 3)])
		p.ReuseKey = append(p.ReuseKey, t.Choose(rt.SGen, 2) == 0)
	}
	return p
}

// CloneCircuit returns an independent copy of the circuit (fresh scratch pool).
func CloneCircuit(c *circuit.Circuit) *circuit.Circuit {
	return &circuit.Circuit{
		NumGates: c.NumGates,
		NumWires: c.NumWires,
		Inputs:   c.Inputs,
		Outputs:  c.Outputs,
		Gates:    append([]circuit.Gate(nil), c.Gates...),
		Stats:    c.Stats,
	}
}

// Snapshot renders everything of a circuit value that its users share: counts, signature - every
// member list up to its capacity, not only its length - and gates. Calls on a shared circuit value
// must leave it what it is.
func Snapshot(c *circuit.Circuit) string {
	var sb strings.Builder
	fmt.Fprintf(&sb, "gates=%d wires=%d stats=%v\n", c.NumGates, c.NumWires, c.Stats)
	var rec func(io circuit.IO, depth int)
	rec = func(io circuit.IO, depth int) {
		for i, a := range io[:cap(io)] {
			fmt.Fprintf(&sb, "%*s[%d of len %d] %q %s bits=%d\n", depth*2, "", i, len(io), a.Name, a.Type.String(), a.Type.Bits)
			if depth < 4 {
				rec(a.Compound, depth+1)
			}
		}
	}
	rec(c.Inputs, 0)
	rec(c.Outputs, 0)
	h := sha256.New()
	for _, g := range c.Gates {
		fmt.Fprintf(h, "%d %d %d %d %d;", g.Input0, g.Input1, g.Output, g.Op, g.Level)
	}
	fmt.Fprintf(&sb, "gates %x\n", h.Sum(nil)[:8])
	return sb.String()
}

// Describe renders the plan.
func (p *Plan) Describe() []string {
	var out []string
	for i, ops := range p.Tasks {
		s := fmt.Sprintf("task %d (key %d bytes, one reused key buffer: %v):", i, p.KeyLen[i], i < len(p.ReuseKey) && p.ReuseKey[i])
		for _, o := range ops {
			s += " " + o.String()
		}
		out = append(out, s)
	}
	return out
}

// Result is what one task observed.
type Result struct {
	GarbleSums []string // checksum of every garbling at the moment Garble returned
	Violation  string   // first violated clause, "" if none
	Clause     string
	Ops        int
}

type held struct {
	g        *circuit.Garbled
	key      []byte
	sum      string
	released bool
	kept     bool // only the tables are kept (Op.Drop): never released
}

// Checksum covers R, every wire label pair and every table row.
func Checksum(g *circuit.Garbled) string {
	h := sha256.New()
	var b [16]byte
	put := func(l ot.Label) {
		binary.BigEndian.PutUint64(b[:8], l.D0)
		binary.BigEndian.PutUint64(b[8:], l.D1)
		h.Write(b[:])
	}
	put(g.R)
	for _, w := range g.Wires {
		put(w.L0)
		put(w.L1)
	}
	for _, row := range g.Gates {
		h.Write([]byte{byte(len(row))})
		for _, l := range row {
			put(l)
		}
	}
	return hex.EncodeToString(h.Sum(nil)[:12])
}

// Exec executes the operation list of one task against the shared circuit.
func Exec(p *Plan, circ *circuit.Circuit, task int, rnd io.Reader) *Result {
	res := &Result{}
	fail := func(clause, format string, args ...any) {
		if res.Violation == "" {
			res.Clause = clause
			res.Violation = fmt.Sprintf("task %d: ", task) + fmt.Sprintf(format, args...)
		}
	}
	var slots [2]*held
	in := p.Inputs[task]
	want := p.Want[task]
	nin := 0
	for _, a := range circ.Inputs {
		nin += int(a.Type.Bits)
	}
	outSize := 0
	for _, a := range circ.Outputs {
		outSize += int(a.Type.Bits)
	}
	var keyBuf []byte
	var keptForGood []*held
	defer func() {
		for _, h := range slots {
			if h != nil && h.kept && !h.released {
				keptForGood = append(keptForGood, h)
			}
		}
		for _, h := range keptForGood {
			if s := Checksum(h.g); s != h.sum && res.Violation == "" {
				fail("garbling-changed-while-held", "a garbling that was never released (the caller kept its tables and dropped the handle) changed (checksum %s -> %s)", h.sum, s)
			}
		}
	}()
	for idx, op := range p.Tasks[task] {
		if res.Violation != "" {
			break
		}
		res.Ops++
		switch op.Kind {
		case Garble:
			if h := slots[op.Slot]; h != nil && !h.released {
				if s := Checksum(h.g); s != h.sum {
					fail("garbling-changed-while-held", "op %d: the garbling in slot %d changed before it was released (checksum %s -> %s)", idx, op.Slot, h.sum, s)
					break
				}
				if h.kept {
					keptForGood = append(keptForGood, h) // checked again at the end of the list
				} else {
					h.g.Release()
				}
				h.released = true
			}
			key := make([]byte, p.KeyLen[task])
			if task < len(p.ReuseKey) && p.ReuseKey[task] {
				if keyBuf == nil {
					keyBuf = make([]byte, p.KeyLen[task])
				}
				key = keyBuf
			}
			if _, err := io.ReadFull(rnd, key); err != nil {
				fail("harness", "rand: %v", err)
				break
			}
			g, err := circ.Garble(rnd, key)
			key = append([]byte(nil), key...) // the garbling's key, kept while the buffer is refilled
			if err != nil {
				fail("garble-error", "op %d: Garble: %v", idx, err)
				break
			}
			if len(g.Wires) != circ.NumWires || len(g.Gates) != circ.NumGates {
				fail("garble-shape", "op %d: Garble returned %d wires, %d gate rows for a circuit of %d wires, %d gates", idx, len(g.Wires), len(g.Gates), circ.NumWires, circ.NumGates)
				break
			}
			sum := Checksum(g)
			res.GarbleSums = append(res.GarbleSums, sum)
			if op.Drop {
				// keep the tables, drop the handle
				g = &circuit.Garbled{R: g.R, Wires: g.Wires, Gates: g.Gates}
			}
			slots[op.Slot] = &held{g: g, key: key, sum: sum, kept: op.Drop}
		case Eval:
			h := slots[op.Slot]
			if h == nil || h.released {
				continue
			}
			if s := Checksum(h.g); s != h.sum {
				fail("garbling-changed-while-held", "op %d: the garbling in slot %d changed before it was released (checksum %s -> %s)", idx, op.Slot, h.sum, s)
				break
			}
			wires := make([]ot.Label, circ.NumWires)
			w := 0
			for a, arg := range circ.Inputs {
				for b := 0; b < int(arg.Type.Bits); b++ {
					wires[w] = circuit.LabelForBit(h.g.Wires[w], in[a].Bit(b) == 1)
					w++
				}
			}
			if err := circ.Eval(h.key, wires, h.g.Gates); err != nil {
				fail("eval-error", "op %d: Eval: %v", idx, err)
				break
			}
			w = circ.NumWires - outSize
			for o, arg := range circ.Outputs {
				for b := 0; b < int(arg.Type.Bits); b++ {
					bit, err := circuit.BitFromLabel(h.g.Wires[w], wires[w])
					if err != nil {
						fail("eval-not-a-label", "op %d: output wire %d evaluates to a value that is neither of its labels", idx, w)
						break
					}
					if bit != (want[o].Bit(b) == 1) {
						fail("eval-wrong", "op %d: garbled evaluation gives bit %v on output %d bit %d, truth table %v", idx, bit, o, b, want[o].Bit(b) == 1)
						break
					}
					w++
				}
			}
		case Compute:
			got, err := circ.Compute(gen.FlattenInputs(circ, in))
			if err != nil || !gen.EqualOutputs(got, want) {
				fail("compute-wrong", "op %d: Compute returned %s err=%v, truth table %s", idx, gen.FmtInts(got), err, gen.FmtInts(want))
			}
		case Release:
			h := slots[op.Slot]
			if h == nil || h.released {
				continue
			}
			if s := Checksum(h.g); s != h.sum {
				fail("garbling-changed-while-held", "op %d: the garbling in slot %d changed before it was released (checksum %s -> %s)", idx, op.Slot, h.sum, s)
				break
			}
			if h.kept {
				continue // never released
			}
			h.g.Release()
			h.released = true
		case ReleaseAgain:
			h := slots[op.Slot]
			if h == nil || !h.released || h.kept {
				continue
			}
			h.g.Release() // releasing twice must be harmless
		case GarbleFail:
			key := make([]byte, p.KeyLen[task])
			g, err := circ.Garble(&failingReader{n: op.Slot * 8}, key)
			if err == nil {
				// the source delivered enough: an ordinary garbling, given back at once
				g.Release()
			}
		case GarbleBadKey:
			if g, err := circ.Garble(rnd, make([]byte, 7)); err == nil {
				fail("bad-key-accepted", "op %d: Garble accepted a 7-byte key", idx)
				g.Release()
			}
		}
	}
	return res
}
