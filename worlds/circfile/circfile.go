// Package circfile is the simulated world for C14: circuits are written in
// both file formats to a simulated disk, read back through short-reading
// readers and parsed (round trip), and stored bytes are damaged by
// truncation, bit flips, extension, splicing and boundary-valued length
// fields before parsing (graceful rejection).
package circfile

import (
	"bytes"
	"crypto/sha256"
	"encoding/binary"
	"encoding/hex"
	"errors"
	"fmt"
	"os"
	"os/exec"
	"path/filepath"
	"runtime/debug"
	"strconv"
	"strings"
	"time"

	"github.com/markkurossi/mpc/circuit"
	"github.com/markkurossi/mpc/types"

	"verifsim/gen"
	"verifsim/sim/rt"
	"verifsim/sim/simdisk"
	"verifsim/sim/simrand"
	"verifsim/worlds/core"
)

// childParse is run in a worker process of its own (simworker child -prop C14): it parses the
// native-format bytes on its standard input and answers "ok" or "error: ...". A parser that kills
// the process (a stack overflow is not a panic: nothing recovers from it) takes the child with it,
// and the parent has its verdict.
func childParse(in []byte) []byte {
	if _, err := circuit.ParseMPCLC(bytes.NewReader(in)); err != nil {
		return []byte("error: " + err.Error())
	}
	return []byte("ok")
}

// parseInChild runs childParse on data; died is true if the child process did not answer.
func parseInChild(data []byte) (answer string, died bool, stderr string) {
	exe, err := os.Executable()
	if err != nil {
		return "harness: " + err.Error(), false, ""
	}
	cmd := exec.Command(exe, "child", "-prop", "C14")
	cmd.Stdin = bytes.NewReader(data)
	var out, errb bytes.Buffer
	cmd.Stdout, cmd.Stderr = &out, &errb
	if err := cmd.Run(); err != nil {
		se := errb.String()
		if i := strings.Index(se, "\n\n"); i > 0 {
			se = se[:i]
		}
		if len(se) > 300 {
			se = se[:300]
		}
		return err.Error(), true, se
	}
	return out.String(), false, ""
}

func init() {
	core.RegisterChild("C14", childParse)
	core.Register("C14", func(tier string) core.World { return &world{tier: tier} })
}

type world struct{ tier string }

const sizeLimit = 1_000_000 // the property's precondition on declared sizes

var nameAlphabet = "abcdefghijklmnopqrstuvwxyzABCXYZ0123456789_%{},"

func drawName(t *rt.Tape) string {
	switch t.Choose(rt.SGen, 6) {
	case 0:
		return ""
	case 1:
		return fmt.Sprintf("%%ret%d{1,%d}u8", t.Choose(rt.SGen, 10), t.Choose(rt.SGen, 10))
	case 2: // long name
		n := 30 + t.Choose(rt.SGen, 90)
		b := make([]byte, n)
		for i := range b {
			b[i] = nameAlphabet[t.Choose(rt.SGen, len(nameAlphabet))]
		}
		return string(b)
	}
	n := 1 + t.Choose(rt.SGen, 8)
	b := make([]byte, n)
	for i := range b {
		b[i] = nameAlphabet[t.Choose(rt.SGen, 26)]
	}
	return string(b)
}

// mustType builds the type info for a type name directly (without the
// library's parser, so that the expectation is independent of it): intN,
// uintN, boolN, stringN, structN, [k]uintN.
func mustType(s string) types.Info {
	if strings.HasPrefix(s, "[]") {
		// a slice: its length is not part of the type string (an empty slice has no wires)
		el := mustType(s[2:])
		return types.Info{Type: types.TSlice, IsConcrete: true, ElementType: &el}
	}
	if strings.HasPrefix(s, "[") {
		i := strings.IndexByte(s, ']')
		n, err := strconv.Atoi(s[1:i])
		if err != nil {
			panic("harness: bad type " + s)
		}
		el := mustType(s[i+1:])
		return types.Info{Type: types.TArray, IsConcrete: true, Bits: types.Size(n) * el.Bits, ElementType: &el, ArraySize: types.Size(n)}
	}
	for name, ty := range map[string]types.Type{"uint": types.TUint, "int": types.TInt, "bool": types.TBool, "string": types.TString, "struct": types.TStruct} {
		if strings.HasPrefix(s, name) {
			if n, err := strconv.Atoi(s[len(name):]); err == nil {
				return types.Info{Type: ty, IsConcrete: true, Bits: types.Size(n)}
			}
		}
	}
	panic("harness: bad type " + s)
}

// typeDesc renders a type structurally (not through Info.String).
func typeDesc(t types.Info) string {
	s := fmt.Sprintf("T%d/bits=%d/concrete=%v", t.Type, t.Bits, t.Concrete())
	if t.ElementType != nil && t.Type == types.TSlice {
		s += fmt.Sprintf("/slice of (%s)", typeDesc(*t.ElementType)) // the files do not record a slice's length
	} else if t.ElementType != nil {
		s += fmt.Sprintf("/array=%d of (%s)", t.ArraySize, typeDesc(*t.ElementType))
	}
	return s
}

// drawLeaf draws a scalar or array argument with exactly bits bits if bits>0.
func drawLeaf(t *rt.Tape, bits int) circuit.IOArg {
	if bits <= 0 {
		bits = 1 + t.Choose(rt.SGen, 24)
	}
	var ts string
	switch t.Choose(rt.SGen, 6) {
	case 5:
		// an array of arrays (of arrays) whose total size is bits
		ts = fmt.Sprintf("uint%d", bits)
		for _, el := range []int{8, 4, 2, 1} {
			if bits%(2*el) == 0 {
				n := bits / el
				switch {
				case n%6 == 0 && t.Choose(rt.SGen, 2) == 0:
					ts = fmt.Sprintf("[%d][3][2]uint%d", n/6, el)
				case n%2 == 0:
					ts = fmt.Sprintf("[%d][2]uint%d", n/2, el)
				}
				break
			}
		}
	case 0:
		ts = fmt.Sprintf("int%d", bits)
	case 1:
		if bits == 1 {
			ts = "bool1"
		} else {
			ts = fmt.Sprintf("uint%d", bits)
		}
	case 2:
		// array whose total size is bits
		for _, el := range []int{8, 4, 2, 1} {
			if bits%el == 0 {
				ts = fmt.Sprintf("[%d]uint%d", bits/el, el)
				break
			}
		}
	default:
		ts = fmt.Sprintf("uint%d", bits)
	}
	ti := mustType(ts)
	ti.Bits = types.Size(bits)
	return circuit.IOArg{Name: drawName(t), Type: ti}
}

// drawArg draws an argument of exactly bits bits, possibly a struct with
// compound members (many members make headers exceed bufio's buffer).
func drawArg(t *rt.Tape, bits int, bigHeader bool) circuit.IOArg {
	if bits >= 2 && t.Choose(rt.SGen, 3) == 0 || bigHeader && bits >= 40 {
		arg := circuit.IOArg{Name: drawName(t), Type: mustType(fmt.Sprintf("struct%d", bits))}
		arg.Type.Bits = types.Size(bits)
		rest := bits
		if t.Choose(rt.SGen, 4) == 0 {
			// a zero-width member (empty string, empty array): no wires, but part of the signature
			z := circuit.IOArg{Name: drawName(t), Type: mustType([]string{"uint0", "string0", "[3]uint0", "int0", "[0]uint8", "[2][0]uint8", "[0]int16", "[]uint8", "[]uint0", "[]int0", "[][0]uint8"}[t.Choose(rt.SGen, 11)])}
			arg.Compound = append(arg.Compound, z)
			rt.Reach("io.zero-width-member")
		}
		for rest > 0 {
			b := 1 + t.Choose(rt.SGen, min(rest, 16))
			if bigHeader {
				b = 1
			}
			if rest-b < 0 {
				b = rest
			}
			arg.Compound = append(arg.Compound, drawLeaf(t, b))
			rest -= b
		}
		return arg
	}
	return drawLeaf(t, bits)
}

// richCircuit draws a circuit whose I/O signature uses names, arrays,
// structs and compound members.
// hugeCircuit has just over 2^20 (or 2^21) gates - what real programs compile to (the
// repository's benchmarks list circuits of 5 to 7 million gates), and more than any chunked or
// doubling buffer holds in its first piece. The gates come from a cheap recurrence, not from
// the tape (a million tape draws per case would be the cost of the case).
func hugeCircuit(t *rt.Tape) *circuit.Circuit {
	nin := 40 + t.Choose(rt.SGen, 40)
	ng := []int{1<<20 + 1, 1<<20 + 4097, 1<<20 - 1, 1 << 20, 1<<21 + 3}[t.Choose(rt.SGen, 5)]
	c := &circuit.Circuit{NumGates: ng, NumWires: nin + ng}
	c.Inputs = circuit.IO{{Name: "a", Type: mustType(fmt.Sprintf("uint%d", nin/2))}, {Name: "b", Type: mustType(fmt.Sprintf("uint%d", nin-nin/2))}}
	c.Outputs = circuit.IO{{Name: "r", Type: mustType("uint32")}}
	c.Gates = make([]circuit.Gate, ng)
	x := uint64(t.Choose(rt.SGen, 1<<30)) | 1
	ops := []circuit.Operation{circuit.XOR, circuit.AND, circuit.XNOR, circuit.OR, circuit.INV, circuit.XOR, circuit.XOR, circuit.AND}
	for i := range c.Gates {
		x = x*6364136223846793005 + 1442695040888963407
		avail := uint64(nin + i)
		g := circuit.Gate{Op: ops[x>>60&7], Output: circuit.Wire(nin + i)}
		g.Input0 = circuit.Wire(avail - 1 - (x>>20)%min(avail, 64))
		if g.Op != circuit.INV {
			g.Input1 = circuit.Wire((x >> 8) % avail)
		}
		c.Gates[i] = g
		c.Stats[g.Op]++
	}
	rt.Reach("roundtrip.more-than-a-million-gates")
	return c
}

func richCircuit(t *rt.Tape) *circuit.Circuit {
	if t.Choose(rt.SGen, 12) == 0 {
		// more than a thousand arguments or results: the signature (one text line in
		// the Bristol format) outgrows every fixed-size line or header buffer
		n := 1300 + t.Choose(rt.SGen, 1400)
		rt.Reach("io.more-than-1300-arguments-or-results")
		if t.Choose(rt.SGen, 2) == 0 {
			return gen.Circuit(t, gen.CircuitOpts{Parties: n, MaxIn: 2, MaxGates: 10, MaxOutW: 3})
		}
		return gen.Circuit(t, gen.CircuitOpts{MaxIn: 8, MaxGates: 10, MaxOutW: 2, FixedOuts: n})
	}
	c := gen.Circuit(t, gen.CircuitOpts{MaxGates: 120, MaxIn: 40, INVHeavy: t.Choose(rt.SGen, 4) == 0})
	bigHeader := t.Choose(rt.SGen, 6) == 0
	if bigHeader {
		// a wide input so that a struct of one-bit members with long names
		// makes the header larger than 4 KiB
		c = gen.Circuit(t, gen.CircuitOpts{MaxGates: 40, MaxIn: 200})
	}
	for i := range c.Inputs {
		c.Inputs[i] = drawArg(t, int(c.Inputs[i].Type.Bits), bigHeader && i == 0)
	}
	for i := range c.Outputs {
		c.Outputs[i] = drawArg(t, int(c.Outputs[i].Type.Bits), false)
	}
	return c
}

func sigString(io circuit.IO, withNames bool) string {
	var sb strings.Builder
	for _, a := range io {
		if withNames {
			fmt.Fprintf(&sb, "%q:%s", a.Name, typeDesc(a.Type))
		} else {
			fmt.Fprintf(&sb, "/%d", a.Type.Bits)
		}
		if withNames && len(a.Compound) > 0 {
			sb.WriteString("{" + sigString(a.Compound, true) + "}")
		}
		sb.WriteString(";")
	}
	return sb.String()
}

func gatesEqual(a, b []circuit.Gate) bool {
	if len(a) != len(b) {
		return false
	}
	for i := range a {
		x, y := a[i], b[i]
		if x.Op != y.Op || x.Input0 != y.Input0 || x.Output != y.Output {
			return false
		}
		if x.Op != circuit.INV && x.Input1 != y.Input1 {
			return false
		}
	}
	return true
}

type parseResult struct {
	circ    *circuit.Circuit
	err     error
	panicV  any
	stack   string
	hung    bool
	allocNo bool
	elapsed time.Duration
	eofs    int
}

// hangLimit is the only wall-clock verdict of the whole framework; it exists
// because the property itself says "never hangs". A parse of at most 64 KiB
// normally takes well under a millisecond.
const hangLimit = 20 * time.Second

// lastParse describes the parse in progress (for the verdict when the kernel ends the run in a
// deadlock: a parser that started goroutines and waits for them for ever).
var lastParse string

// EOFWithLast (per run): the readers hand out the last bytes of a file together with io.EOF.
var EOFWithLast bool

// rmodeFile: the bytes are put into a real file in the process's scratch directory, named by the
// format's extension, and parsed through the library's file route circuit.Parse(path).
const rmodeFile = 9

var scratch string
var scratchN int

// FileRouteUnavailable counts the cases whose scratch file could not be written (they used the
// reader route instead).
var FileRouteUnavailable int

func filePath(format, k int) (string, error) {
	if scratch == "" {
		d, err := os.MkdirTemp("", "verifsim-c14-")
		if err != nil {
			return "", err
		}
		scratch = d
	}
	scratchN++
	ext := ".mpclc"
	if format == 1 {
		ext = []string{".circ", ".bristol"}[k%2]
	}
	return filepath.Join(scratch, fmt.Sprintf("c%d%s", scratchN%4, ext)), nil
}

func safeParse(format int, data []byte, rmode, k int) parseResult {
	lastParse = fmt.Sprintf("%s input of %d bytes (sha256 %s)", []string{"mpclc", "bristol"}[format], len(data), shortSum(data))
	ch := make(chan parseResult, 1)
	rd := simdisk.NewReader(data, rmode, k)
	rd.EOFWithLast = EOFWithLast
	start := time.Now()
	go func() {
		var pr parseResult
		defer func() {
			if r := recover(); r != nil {
				if _, big := r.(rt.AllocTooLarge); big {
					pr.allocNo = true
				} else {
					pr.panicV = r
					pr.stack = string(debug.Stack())
				}
			}
			pr.elapsed = time.Since(start)
			pr.eofs = rd.EOFs
			ch <- pr
		}()
		if rmode == rmodeFile {
			path, err := filePath(format, k)
			if err == nil {
				err = os.WriteFile(path, data, 0o600)
			}
			if err == nil {
				defer os.Remove(path)
				pr.circ, pr.err = circuit.Parse(path)
				return
			}
			// no scratch file (read-only or full temporary directory): the reader route instead
			FileRouteUnavailable++
		}
		if format == 0 {
			pr.circ, pr.err = circuit.ParseMPCLC(rd)
		} else {
			pr.circ, pr.err = circuit.ParseBristol(rd)
		}
	}()
	select {
	case pr := <-ch:
		if rt.IsKill(pr.panicV) {
			// the parser started goroutines of its own and the kernel ended the run while they
			// were blocked (a hang, reported by Run): unwind this task as the kernel asked
			panic(pr.panicV)
		}
		return pr
	case <-time.After(hangLimit):
		return parseResult{hung: true, elapsed: time.Since(start), eofs: rd.EOFs}
	}
}

func shortSum(b []byte) string {
	h := sha256.Sum256(b)
	return hex.EncodeToString(h[:6])
}

// wellFormed checks what the property promises about an accepted circuit.
func wellFormed(c *circuit.Circuit) string {
	if c.NumGates != len(c.Gates) {
		return fmt.Sprintf("NumGates=%d but %d gates", c.NumGates, len(c.Gates))
	}
	if c.NumWires < 0 || c.NumWires > 50_000_000 {
		return fmt.Sprintf("NumWires=%d", c.NumWires)
	}
	assigned := make([]bool, c.NumWires)
	nin := 0
	for _, in := range c.Inputs {
		nin += int(in.Type.Bits)
	}
	if nin > c.NumWires {
		return fmt.Sprintf("%d input wires but NumWires=%d", nin, c.NumWires)
	}
	for i := 0; i < nin; i++ {
		assigned[i] = true
	}
	for i, g := range c.Gates {
		ins := []circuit.Wire{g.Input0}
		if g.Op != circuit.INV {
			ins = append(ins, g.Input1)
		}
		if g.Op > circuit.INV {
			return fmt.Sprintf("gate %d has invalid operation %d", i, g.Op)
		}
		for _, w := range ins {
			if int(w) >= c.NumWires || !assigned[w] {
				return fmt.Sprintf("gate %d reads wire %d which is neither an input nor the output of an earlier gate", i, w)
			}
		}
		if int(g.Output) >= c.NumWires {
			return fmt.Sprintf("gate %d writes wire %d >= NumWires %d", i, g.Output, c.NumWires)
		}
		assigned[g.Output] = true
	}
	for w, ok := range assigned {
		if !ok {
			return fmt.Sprintf("wire %d is never assigned", w)
		}
	}
	return ""
}

// declaredSizesOK is the harness's own tolerant scan of the documented file
// layouts: it reports false if any count/length/size field it can reach
// exceeds the property's bound.
func declaredSizesOK(format int, data []byte) bool {
	if format == 1 {
		// Bristol: every decimal number in the text
		for _, f := range strings.Fields(string(data)) {
			if v, err := strconv.ParseInt(f, 10, 64); err == nil {
				if v > sizeLimit || v < -sizeLimit {
					return false
				}
			} else if len(f) > 7 && strings.Trim(f, "0123456789+-") == "" {
				return false // a number too large to parse
			}
		}
		return true
	}
	pos := 0
	u32 := func() (uint32, bool) {
		if pos+4 > len(data) {
			return 0, false
		}
		v := binary.BigEndian.Uint32(data[pos:])
		pos += 4
		return v, true
	}
	if _, ok := u32(); !ok { // magic
		return true
	}
	var hdr [4]uint32
	for i := range hdr {
		v, ok := u32()
		if !ok {
			return true
		}
		if v > sizeLimit {
			return false
		}
		hdr[i] = v
	}
	budget := 200000 // members scanned
	var arg func(depth int) (ok, more bool)
	arg = func(depth int) (bool, bool) {
		if depth > 64 || budget <= 0 {
			return true, false
		}
		budget--
		for s := 0; s < 2; s++ { // name, type
			l, ok := u32()
			if !ok {
				return true, false
			}
			if l > sizeLimit {
				return false, false
			}
			if pos+int(l) > len(data) {
				return true, false
			}
			pos += int(l)
		}
		bits, ok := u32()
		if !ok {
			return true, false
		}
		if bits > sizeLimit {
			return false, false
		}
		cnt, ok := u32()
		if !ok {
			return true, false
		}
		if cnt > sizeLimit {
			return false, false
		}
		for i := uint32(0); i < cnt; i++ {
			ok, more := arg(depth + 1)
			if !ok || !more {
				return ok, more
			}
		}
		return true, true
	}
	for i := uint32(0); i < hdr[2]+hdr[3]; i++ {
		ok, more := arg(0)
		if !ok {
			return false
		}
		if !more {
			return true
		}
	}
	return true
}

type sample struct {
	Mode    string
	Format  string
	Circuit string
	Bytes   int
	Reader  string
	Faults  []string `json:",omitempty"`
}

func (w *world) Run(t *rt.Tape, trace bool) *core.Result {
	res := &core.Result{Reach: map[string]int{}, Faults: map[string]int{}}
	core.BeginRun(t)
	var failure *core.Failure
	var smp sample
	EOFWithLast = t.Choose(rt.SGen, 4) == 0
	if EOFWithLast {
		res.Reach["reader.last-bytes-with-EOF"]++
	}
	rr := rt.Run(rt.Config{Trace: trace, NoProgress: core.NoProgressDefault}, t, func() {
		if t.Choose(rt.SGen, 6) == 0 {
			failure = w.concurrent(t, res, &smp)
		} else if t.Choose(rt.SGen, 3) == 0 {
			failure = w.roundTrip(t, res, &smp)
		} else {
			failure = w.faults(t, res, &smp)
		}
	})
	core.Finish(res, rr)
	res.Sample = smp
	res.Class = smp.Mode + " " + smp.Format
	res.Nontrivial = true
	if len(rr.Crashed) > 0 {
		res.Fail = &core.Failure{Clause: "panic", Detail: core.CrashDetail(rr)}
		return res
	}
	if core.Stuck(rr) && failure == nil {
		failure = &core.Failure{Clause: "parse-hangs", Detail: fmt.Sprintf("%s: the parse did not return: the run ended in %s with blocked tasks %v", lastParse, rr.Outcome, rr.Blocked)}
	}
	res.Fail = failure
	return res
}

func marshal(c *circuit.Circuit, format int) ([]byte, error) {
	var buf bytes.Buffer
	var err error
	if format == 0 {
		err = c.Marshal(&buf)
	} else {
		err = c.MarshalBristol(&buf)
	}
	return buf.Bytes(), err
}

// fullDisk is a destination that accepts limit bytes and then fails: a full disk, a closed pipe.
// mode 0: the failing Write reports what it took and an error; mode 1: it takes nothing and
// fails; mode 2: it returns a short count without an error (which io.Writer forbids, but a
// careless wrapper does) - in every mode the file is lost, the process carries on.
type fullDisk struct {
	limit, mode int
	n           int
}

var errDiskFull = errors.New("simdisk: no space left on device")

func (d *fullDisk) Write(p []byte) (int, error) {
	room := d.limit - d.n
	if room >= len(p) {
		d.n += len(p)
		return len(p), nil
	}
	if room < 0 {
		room = 0
	}
	switch d.mode {
	case 1:
		return 0, errDiskFull
	case 2:
		d.n += room
		return room, nil
	}
	d.n += room
	return room, errDiskFull
}

func (w *world) roundTrip(t *rt.Tape, res *core.Result, smp *sample) *core.Failure {
	format := t.Choose(rt.SGen, 2)
	c := richCircuit(t)
	if t.Choose(rt.SGen, 60) == 0 {
		c = hugeCircuit(t) // round trips only: a damaged-file case parses hundreds of versions of its file
	}
	smp.Mode, smp.Format, smp.Circuit = "round-trip", []string{"mpclc", "bristol"}[format], gen.Describe(c)
	// One case in four: fail, then carry on. Before the circuit of the case is written, the process
	// writes a circuit (this one or another, in either format) to a destination that fails after a
	// tape-chosen number of bytes. That file is lost and nobody looks at it; what is written
	// afterwards must be as good as ever.
	if t.Choose(rt.SGen, 4) == 0 {
		pc, pf := c, format
		if t.Choose(rt.SGen, 2) == 0 {
			pc = gen.Circuit(t, gen.CircuitOpts{MaxGates: 40})
		}
		if t.Choose(rt.SGen, 3) == 0 {
			pf = 1 - format
		}
		whole, _ := marshal(pc, pf)
		d := &fullDisk{limit: t.Choose(rt.SGen, len(whole)+1), mode: t.Choose(rt.SGen, 3)}
		func() {
			defer func() {
				if r := recover(); r != nil {
					res.Reach["fail-then-carry-on.marshal-to-a-full-disk-panicked (not judged)"]++
				}
			}()
			var err error
			if pf == 0 {
				err = pc.Marshal(d)
			} else {
				err = pc.MarshalBristol(d)
			}
			if err != nil {
				res.Reach["fail-then-carry-on.marshal-reported-the-write-error"]++
			}
		}()
		res.Reach["fail-then-carry-on"]++
		smp.Faults = append(smp.Faults, fmt.Sprintf("preceded by a Marshal (format %d) to a destination that fails after %d bytes (mode %d)", pf, d.limit, d.mode))
	}
	data, err := marshal(c, format)
	if err != nil {
		return &core.Failure{Clause: "marshal-error", Detail: err.Error()}
	}
	smp.Bytes = len(data)
	rt.LogBytes('f', data) // the case is part of the run's identity
	// through the simulated disk: write, sync, crash (only durable bytes survive), read
	disk := simdisk.New()
	disk.Write("circuit", data)
	disk.Sync("circuit")
	disk.Crash(0)
	stored, err := disk.Read("circuit")
	if err != nil || !bytes.Equal(stored, data) {
		return &core.Failure{Clause: "harness", Detail: "simulated disk lost synced data"}
	}
	rmode := t.Choose(rt.SGen, 4)
	k := []int{1, 2, 3, 7, 100, 4095, 4096, 4097}[t.Choose(rt.SGen, 8)]
	if len(data) > 1<<20 && (rmode == 1 || rmode == 2 || k < 4095) {
		rmode, k = 3, 4096 // megabytes are not read byte by byte
	}
	smp.Reader = []string{"whole", "1 byte", "random", fmt.Sprintf("at most %d", k)}[rmode]
	// one round trip in six goes through the file route of the library: a file named by the
	// format's extension, circuit.Parse(path)
	if t.Choose(rt.SGen, 4) == 0 {
		rmode = rmodeFile
		smp.Reader = "a file on disk, parsed with circuit.Parse(path)"
		res.Reach["roundtrip.file-route"]++
	}
	if len(data) > 4096 {
		res.Reach["file>4KiB"]++
	}
	hdr := len(data)
	if format == 0 {
		hdr -= 0 // header size is not known to the harness; files > 4 KiB with few gates are header-heavy
	}
	pr := safeParse(format, stored, rmode, k)
	res.Reach["roundtrip."+smp.Format]++
	if pr.hung {
		return &core.Failure{Clause: "parse-hangs", Detail: fmt.Sprintf("parsing a valid %d-byte %s file did not finish within %v", len(data), smp.Format, hangLimit)}
	}
	if pr.panicV != nil {
		return &core.Failure{Clause: "panic", Detail: fmt.Sprintf("parsing a valid %s file panicked: %v\n%s", smp.Format, pr.panicV, pr.stack)}
	}
	if pr.allocNo {
		return &core.Failure{Clause: "roundtrip-parse-error", Detail: fmt.Sprintf("parsing a valid %d-byte %s file (reader: %s) tried to allocate more than %d bytes: the parser lost its position in the file", len(data), smp.Format, smp.Reader, rt.AllocLimit)}
	}
	if pr.err != nil {
		return &core.Failure{Clause: "roundtrip-parse-error", Detail: fmt.Sprintf("a circuit written with Marshal%s (%d bytes, reader: %s) does not parse back: %v", map[int]string{0: "", 1: "Bristol"}[format], len(data), smp.Reader, pr.err)}
	}
	got := pr.circ
	// the caller keeps the parsed circuit while the process goes on parsing and writing other
	// files: what was returned must not change under its feet (one case in two)
	if t.Choose(rt.SGen, 2) == 0 {
		oc := gen.Circuit(t, gen.CircuitOpts{MaxGates: 60})
		for _, f := range []int{format, 1 - format} {
			if od, err := marshal(oc, f); err == nil {
				safeParse(f, od, rmode, k)
			}
		}
		res.Reach["roundtrip.result-kept-across-other-parses"]++
	}
	if got.NumGates != c.NumGates || got.NumWires != c.NumWires || !gatesEqual(got.Gates, c.Gates) {
		return &core.Failure{Clause: "roundtrip-differs", Detail: fmt.Sprintf("gates or counts differ after the round trip: %d/%d gates, %d/%d wires", got.NumGates, c.NumGates, got.NumWires, c.NumWires)}
	}
	if format == 0 {
		if a, b := sigString(got.Inputs, true)+"->"+sigString(got.Outputs, true), sigString(c.Inputs, true)+"->"+sigString(c.Outputs, true); a != b {
			return &core.Failure{Clause: "roundtrip-differs", Detail: fmt.Sprintf("I/O signature differs after the round trip:\n got %s\nwant %s", a, b)}
		}
	} else {
		if a, b := sigString(got.Inputs, false)+"->"+sigString(got.Outputs, false), sigString(c.Inputs, false)+"->"+sigString(c.Outputs, false); a != b {
			return &core.Failure{Clause: "roundtrip-differs", Detail: fmt.Sprintf("I/O sizes differ after the round trip: got %s want %s", a, b)}
		}
	}
	// same function on sampled inputs
	for i := 0; i < 3; i++ {
		in := gen.Inputs(t, c)
		if !gen.EqualOutputs(gen.Eval(c, in), gen.Eval(got, in)) {
			return &core.Failure{Clause: "roundtrip-differs", Detail: "the parsed circuit computes a different function"}
		}
	}
	again, err := marshal(got, format)
	if err != nil || !bytes.Equal(again, data) {
		return &core.Failure{Clause: "rewrite-differs", Detail: fmt.Sprintf("writing the parsed circuit again gives different bytes (%d vs %d, err=%v)", len(again), len(data), err)}
	}
	// The parsed circuit belongs to the caller, who may do with it what it likes (one case in
	// three: it edits names, types - element types included - and gates in place). Parsing the
	// same file afterwards must give the circuit that is in the file.
	if t.Choose(rt.SGen, 3) == 0 {
		scribble(got)
		pr2 := safeParse(format, stored, rmode, k)
		res.Reach["roundtrip.parsed-again-after-the-caller-edited-the-first-result"]++
		switch {
		case pr2.hung || pr2.panicV != nil || pr2.err != nil || pr2.allocNo:
			return &core.Failure{Clause: "roundtrip-parse-error", Detail: fmt.Sprintf("after the caller edited the circuit it got from the first parse, the same %s file does not parse back: err=%v panic=%v", smp.Format, pr2.err, pr2.panicV)}
		case pr2.circ.NumGates != c.NumGates || pr2.circ.NumWires != c.NumWires || !gatesEqual(pr2.circ.Gates, c.Gates):
			return &core.Failure{Clause: "roundtrip-differs", Detail: "after the caller edited the circuit it got from the first parse, a second parse of the same file gives other gates or counts"}
		}
		names := format == 0
		if a, b := sigString(pr2.circ.Inputs, names)+"->"+sigString(pr2.circ.Outputs, names), sigString(c.Inputs, names)+"->"+sigString(c.Outputs, names); a != b {
			return &core.Failure{Clause: "roundtrip-differs", Detail: fmt.Sprintf("after the caller edited the circuit it got from the first parse, a second parse of the same file gives another I/O signature:\n got %s\nwant %s", a, b)}
		}
		if again2, err := marshal(pr2.circ, format); err != nil || !bytes.Equal(again2, data) {
			return &core.Failure{Clause: "rewrite-differs", Detail: "after the caller edited the circuit it got from the first parse, the second parse of the same file re-marshals to other bytes"}
		}
	}
	return nil
}

// scribble edits a circuit the way a caller that owns it may: in place, through every pointer.
func scribble(c *circuit.Circuit) {
	var rec func(io circuit.IO)
	var typ func(t *types.Info, depth int)
	typ = func(t *types.Info, depth int) {
		if t == nil || depth > 8 {
			return
		}
		t.Bits += 7
		t.MinBits += 3
		t.ArraySize += 2
		t.IsConcrete = !t.IsConcrete
		typ(t.ElementType, depth+1)
		for i := range t.Struct {
			t.Struct[i].Name += "~"
			typ(&t.Struct[i].Type, depth+1)
		}
	}
	rec = func(io circuit.IO) {
		for i := range io {
			io[i].Name += "~edited"
			typ(&io[i].Type, 0)
			rec(io[i].Compound)
		}
	}
	rec(c.Inputs)
	rec(c.Outputs)
	for i := range c.Gates {
		c.Gates[i].Input0, c.Gates[i].Input1, c.Gates[i].Output = 0, 0, 0
	}
	c.NumGates, c.NumWires = 0, 0
}

// concurrent: one process reads several circuit files at the same time (a server loading
// circuits on demand, a tool converting a directory with a worker per file). Every reader's Read
// is a scheduling point, so the parses overlap in every tape-chosen way, and whatever the parsers
// share (a pooled scratch, a cache) is shared. Each parse is judged by the property alone: an
// undamaged file parses back to its circuit, damaged bytes give an error or a well-formed circuit.
// Before the overlapping phase every file is parsed once on its own (which also leaves the
// process in the state of "has parsed files before").
func (w *world) concurrent(t *rt.Tape, res *core.Result, smp *sample) *core.Failure {
	type job struct {
		format  int
		base    *circuit.Circuit
		data    []byte
		damage  string
		rmode   int
		k       int
		pr      parseResult
		done    bool
		written []byte
	}
	n := 2 + t.Choose(rt.SGen, 3)
	jobs := make([]*job, n)
	smp.Mode, smp.Format = "concurrent-parses", "mixed"
	sameFormat := t.Choose(rt.SGen, 2)
	f0 := t.Choose(rt.SGen, 2)
	var shared *circuit.Circuit
	for i := range jobs {
		j := &job{format: f0}
		if sameFormat == 0 {
			j.format = t.Choose(rt.SGen, 2)
		}
		switch {
		case shared != nil && t.Choose(rt.SGen, 3) == 0:
			j.base = shared // the same file read twice at once
		case t.Choose(rt.SGen, 2) == 0:
			j.base = gen.Circuit(t, gen.CircuitOpts{MaxGates: 12, MaxIn: 6, MaxOutW: 4})
		default:
			j.base = gen.Circuit(t, gen.CircuitOpts{MaxGates: 40})
		}
		shared = j.base
		data, err := marshal(j.base, j.format)
		if err != nil {
			return &core.Failure{Clause: "marshal-error", Detail: err.Error()}
		}
		rt.LogBytes('f', data)
		j.data = data
		if t.Choose(rt.SFault, 2) == 0 && len(data) > 16 {
			m := append([]byte(nil), data...)
			switch t.Choose(rt.SFault, 4) {
			case 0:
				bit := t.Choose(rt.SFault, len(m)*8)
				m[bit/8] ^= 1 << (bit % 8)
				j.damage = fmt.Sprintf("flip bit %d", bit)
			case 1:
				cut := t.Choose(rt.SFault, len(m))
				m = m[:cut]
				j.damage = fmt.Sprintf("truncate to %d", cut)
			default: // a wire number of a gate record replaced by another field of the record
				if j.format == 0 {
					span := min(len(m)-13, 13*j.base.NumGates+1)
					a := len(m) - 13 - t.Choose(rt.SFault, max(1, span))
					d := []int{4, 8, -4, -8}[t.Choose(rt.SFault, 4)]
					if a >= 0 && a+d >= 0 && a+d+4 <= len(m) && a+4 <= len(m) {
						copy(m[a+d:a+d+4], data[a:a+4])
					}
					j.damage = fmt.Sprintf("copy the 4 bytes at %d over those at %d", a, a+d)
				} else {
					lines := strings.Split(string(m), "\n")
					li := t.Choose(rt.SFault, len(lines))
					f := strings.Fields(lines[li])
					if len(f) >= 2 {
						from, to := t.Choose(rt.SFault, len(f)), t.Choose(rt.SFault, len(f))
						f[to] = f[from]
						lines[li] = strings.Join(f, " ")
					}
					m = []byte(strings.Join(lines, "\n"))
					j.damage = fmt.Sprintf("line %d: copy a field over another field", li)
				}
			}
			if !declaredSizesOK(j.format, m) || bytes.Equal(m, data) {
				j.damage = ""
			} else {
				j.data = m
				rt.LogBytes('f', m)
				res.Faults["concurrent.damaged-file"]++
			}
		}
		j.rmode = t.Choose(rt.SGen, 4)
		j.k = []int{1, 2, 3, 7, 13, 100, 4096}[t.Choose(rt.SGen, 7)]
		jobs[i] = j
		smp.Faults = append(smp.Faults, fmt.Sprintf("job %d: %s %d bytes (%s) damage=%q reader=%d/%d", i, []string{"mpclc", "bristol"}[j.format], len(j.data), gen.Describe(j.base), j.damage, j.rmode, j.k))
	}
	parse := func(j *job, yield bool) parseResult {
		var pr parseResult
		rd := simdisk.NewReader(j.data, j.rmode, j.k)
		rd.Yield = yield
		func() {
			defer func() {
				if r := recover(); r != nil {
					if _, big := r.(rt.AllocTooLarge); big {
						pr.allocNo = true
					} else {
						pr.panicV = r
						pr.stack = string(debug.Stack())
					}
				}
				pr.eofs = rd.EOFs
			}()
			if j.format == 0 {
				pr.circ, pr.err = circuit.ParseMPCLC(rd)
			} else {
				pr.circ, pr.err = circuit.ParseBristol(rd)
			}
		}()
		return pr
	}
	verdict := func(i int, j *job, pr parseResult, phase string) *core.Failure {
		where := fmt.Sprintf("%s, job %d of %d (%s file of %d bytes, %s, damage: %q)", phase, i, n, []string{"mpclc", "bristol"}[j.format], len(j.data), gen.Describe(j.base), j.damage)
		switch {
		case pr.eofs > 1000:
			return &core.Failure{Clause: "parse-hangs", Detail: where + ": the parser kept calling Read after EOF"}
		case pr.panicV != nil:
			return &core.Failure{Clause: "panic", Detail: fmt.Sprintf("%s: panic: %v\n%s", where, pr.panicV, pr.stack)}
		case pr.allocNo:
			if j.damage == "" {
				return &core.Failure{Clause: "roundtrip-parse-error", Detail: where + ": parsing a valid file tried a giant allocation"}
			}
			res.Reach["allocation refused (not a verdict)"]++
		case pr.err != nil:
			if j.damage == "" {
				return &core.Failure{Clause: "roundtrip-parse-error", Detail: fmt.Sprintf("%s: a file written by Marshal does not parse back: %v", where, pr.err)}
			}
			res.Reach["concurrent.rejected-with-error"]++
		default:
			if bad := wellFormed(pr.circ); bad != "" {
				return &core.Failure{Clause: "accepted-malformed", Detail: fmt.Sprintf("%s: the parser returned a circuit without error, but %s", where, bad)}
			}
			if j.damage == "" {
				c := j.base
				if pr.circ.NumGates != c.NumGates || pr.circ.NumWires != c.NumWires || !gatesEqual(pr.circ.Gates, c.Gates) {
					return &core.Failure{Clause: "roundtrip-differs", Detail: where + ": gates or counts differ after the round trip"}
				}
				names := j.format == 0
				if a, b := sigString(pr.circ.Inputs, names)+"->"+sigString(pr.circ.Outputs, names), sigString(c.Inputs, names)+"->"+sigString(c.Outputs, names); a != b {
					return &core.Failure{Clause: "roundtrip-differs", Detail: fmt.Sprintf("%s: I/O signature differs after the round trip:\n got %s\nwant %s", where, a, b)}
				}
				res.Reach["concurrent.valid-file-parsed-back"]++
			} else {
				res.Reach["concurrent.damaged-accepted-well-formed"]++
			}
		}
		return nil
	}
	// every file once on its own
	for i, j := range jobs {
		if f := verdict(i, j, parse(j, false), "alone"); f != nil {
			return f
		}
	}
	// all of them at the same time
	finished := rt.NewChan[int](n)
	for i, j := range jobs {
		i, j := i, j
		rt.Go(fmt.Sprintf("parse%d", i), func() {
			j.pr = parse(j, true)
			if j.damage == "" && j.pr.circ != nil && j.pr.panicV == nil {
				j.written, _ = marshal(j.pr.circ, j.format)
			}
			j.done = true
			finished.Send(i)
		})
	}
	for range jobs {
		finished.Recv()
	}
	res.Reach["concurrent.cases"]++
	for i, j := range jobs {
		if f := verdict(i, j, j.pr, "overlapping"); f != nil {
			return f
		}
		if j.damage == "" && !bytes.Equal(j.written, j.data) {
			return &core.Failure{Clause: "rewrite-differs", Detail: fmt.Sprintf("overlapping, job %d: writing the parsed circuit again gives different bytes (%d vs %d)", i, len(j.written), len(j.data))}
		}
	}
	return nil
}

// faults damages one file in many ways (faults0); afterwards - fail, then carry on - the undamaged
// file must still parse back to its circuit in the same process.
func (w *world) faults(t *rt.Tape, res *core.Result, smp *sample) *core.Failure {
	f, format, data, base := w.faults0(t, res, smp)
	if f != nil || data == nil {
		return f
	}
	pr := safeParse(format, data, 0, 0)
	switch {
	case pr.hung:
		return &core.Failure{Clause: "parse-hangs", Detail: "after the damaged files: parsing the undamaged file did not return"}
	case pr.panicV != nil:
		return &core.Failure{Clause: "panic", Detail: fmt.Sprintf("after the damaged files: parsing the undamaged file panicked: %v\n%s", pr.panicV, pr.stack)}
	case pr.err != nil || pr.allocNo:
		return &core.Failure{Clause: "roundtrip-parse-error", Detail: fmt.Sprintf("after %d parses of damaged versions of it, the undamaged %s file (%d bytes) does not parse back: %v", res.Faults["truncate"]+res.Faults["bit-flip"]+res.Faults["field-copy"], smp.Format, len(data), pr.err)}
	case pr.circ.NumGates != base.NumGates || pr.circ.NumWires != base.NumWires || !gatesEqual(pr.circ.Gates, base.Gates):
		return &core.Failure{Clause: "roundtrip-differs", Detail: "after the damaged files: the undamaged file parses to other gates or counts"}
	}
	res.Reach["after-damaged-files.undamaged-file-parses-back"]++
	return nil
}

// hostileHeader builds a native-format file of a circuit without gates whose single input is either
// a compound nested depth levels deep (one member per level) or has a type name of nested slices
// ("[][][]...u8") of nameLen bytes. Every declared size in it is at most a million.
func hostileHeader(depth, nameLen int) []byte {
	var b bytes.Buffer
	u32 := func(v uint32) { binary.Write(&b, binary.BigEndian, v) }
	str := func(s string) { u32(uint32(len(s))); b.WriteString(s) }
	u32(uint32(circuit.MAGIC))
	u32(0) // gates
	u32(1) // wires
	u32(1) // inputs
	u32(0) // outputs
	if nameLen > 0 {
		str("a")
		str(strings.Repeat("[]", (nameLen-2)/2) + "u8")
		u32(1)
		u32(0)
		return b.Bytes()
	}
	for i := 0; i <= depth; i++ {
		str("")
		str("u1")
		u32(1)
		if i < depth {
			u32(1)
		} else {
			u32(0)
		}
	}
	return b.Bytes()
}

func (w *world) faults0(t *rt.Tape, res *core.Result, smp *sample) (*core.Failure, int, []byte, *circuit.Circuit) {
	if k := t.Choose(rt.SGen, 150); k < 2 {
		// bytes that no writer produces but whose declared sizes are all small: a signature nested
		// over a million levels deep (25 MB), or one type name of nested slices just under a million
		// bytes. The parser must answer - with a circuit or an error - and not die or take for ever.
		var data []byte
		if k == 0 {
			d := []int{1000, 100000, 1500000}[t.Choose(rt.SGen, 3)]
			data = hostileHeader(d, 0)
			smp.Mode = fmt.Sprintf("hostile header: one input, compound members nested %d deep", d)
		} else {
			n := []int{20000, 200000, 999999}[t.Choose(rt.SGen, 3)]
			data = hostileHeader(0, n)
			smp.Mode = fmt.Sprintf("hostile header: one input whose type name is %d bytes of nested slices", n)
		}
		smp.Format, smp.Bytes = "mpclc", len(data)
		res.Reach["hostile-headers"]++
		rt.LogEvent('h', uint64(len(data)), 0)
		if k == 0 {
			// in a process of its own: what kills it is a verdict, not the end of the check
			ans, died, se := parseInChild(data)
			rt.LogBytes('c', []byte(ans))
			if died && !strings.Contains(se, "fatal error") && !strings.Contains(se, "panic") && !strings.Contains(se, "goroutine stack exceeds") {
				// the child did not start or was killed from outside (a machine short of processes or
				// memory): not the parser's doing, nothing is concluded
				res.Reach["hostile-headers.child process unavailable (nothing concluded)"]++
				return nil, 0, nil, nil
			}
			if died {
				return &core.Failure{Clause: "parser-kills-the-process", Detail: fmt.Sprintf("%s (%d bytes, every declared size at most a million): the process that called ParseMPCLC died (%s): %s", smp.Mode, len(data), ans, se)}, 0, nil, nil
			}
			res.Reach["hostile-headers.answered: "+strings.SplitN(ans, ":", 2)[0]]++
			return nil, 0, nil, nil
		}
		pr := safeParse(0, data, 3, 65536)
		switch {
		case pr.hung:
			return &core.Failure{Clause: "parse-hangs", Detail: fmt.Sprintf("%s (%d bytes, every declared size at most a million): ParseMPCLC did not return within %v", smp.Mode, len(data), hangLimit)}, 0, nil, nil
		case pr.panicV != nil:
			return &core.Failure{Clause: "panic", Detail: fmt.Sprintf("%s: %v", smp.Mode, pr.panicV)}, 0, nil, nil
		}
		return nil, 0, nil, nil
	}
	format := t.Choose(rt.SGen, 2)
	base := richCircuit(t)
	if t.Choose(rt.SGen, 2) == 0 {
		base = gen.Circuit(t, gen.CircuitOpts{MaxGates: 12, MaxIn: 6, MaxOutW: 4})
	}
	other := gen.Circuit(t, gen.CircuitOpts{MaxGates: 30})
	data, err := marshal(base, format)
	if err != nil {
		return &core.Failure{Clause: "marshal-error", Detail: err.Error()}, format, nil, nil
	}
	odata, _ := marshal(other, format)
	smp.Mode, smp.Format, smp.Circuit, smp.Bytes = "damaged-file", []string{"mpclc", "bristol"}[format], gen.Describe(base), len(data)
	rnd := simrand.Stream("mut")
	rt.LogBytes('f', data)
	if len(data) <= 260 && t.Choose(rt.SFault, 4) == 0 {
		// exhaustive single-fault enumeration of this file: every truncation
		// length and every single-bit flip
		res.Reach["exhaustive-single-fault-files"]++
		smp.Mode = "damaged-file (all truncations and all single-bit flips of one file)"
		for i := 0; i < len(data)+len(data)*8; i++ {
			m := append([]byte(nil), data...)
			var desc string
			if i < len(data) {
				m = m[:i]
				desc = fmt.Sprintf("truncate to %d", i)
				res.Faults["truncate"]++
			} else {
				bit := i - len(data)
				m[bit/8] ^= 1 << (bit % 8)
				desc = fmt.Sprintf("flip bit %d", bit)
				res.Faults["bit-flip"]++
			}
			if !declaredSizesOK(format, m) {
				res.Reach["discarded: declared size above one million"]++
				continue
			}
			if f := judge(res, smp, format, m, data, base, desc, 0); f != nil {
				return f, format, data, base
			}
		}
		return nil, format, data, base
	}
	n := 100 + t.Choose(rt.SFault, 900)
	// dense local enumeration: a window of consecutive truncation lengths and bit positions
	winStart := t.Choose(rt.SFault, len(data))
	for i := 0; i < n; i++ {
		m := append([]byte(nil), data...)
		var desc string
		kind := t.Choose(rt.SFault, 10)
		switch kind {
		case 8, 9: // copy one field over a neighbouring field of the same record
			if format == 0 {
				// 4-byte fields: copy the word at a over the word at a +- 4/8 (byte-aligned to any offset)
				a := t.Choose(rt.SFault, max(1, len(m)-12))
				if t.Choose(rt.SFault, 2) == 0 && len(m) > 40 {
					a = len(m) - 13 - t.Choose(rt.SFault, min(len(m)-13, 13*base.NumGates+1))
					if a < 0 {
						a = 0
					}
				}
				d := []int{4, 8, -4, -8}[t.Choose(rt.SFault, 4)]
				if a+d >= 0 && a+d+4 <= len(m) && a+4 <= len(m) {
					copy(m[a+d:a+d+4], data[a:a+4])
				}
				desc = fmt.Sprintf("copy the 4 bytes at %d over those at %d", a, a+d)
			} else {
				lines := strings.Split(string(m), "\n")
				li := t.Choose(rt.SFault, len(lines))
				f := strings.Fields(lines[li])
				if len(f) >= 2 {
					from, to := t.Choose(rt.SFault, len(f)), t.Choose(rt.SFault, len(f))
					f[to] = f[from]
					lines[li] = strings.Join(f, " ")
				}
				m = []byte(strings.Join(lines, "\n"))
				desc = fmt.Sprintf("line %d: copy a field over another field", li)
			}
			res.Faults["field-copy"]++
		case 0: // every truncation length in the window
			cut := (winStart + i) % len(data)
			m = m[:cut]
			desc = fmt.Sprintf("truncate to %d", cut)
			res.Faults["truncate"]++
		case 1: // every single-bit flip in the window
			bit := (winStart*8 + i) % (len(data) * 8)
			m[bit/8] ^= 1 << (bit % 8)
			desc = fmt.Sprintf("flip bit %d", bit)
			res.Faults["bit-flip"]++
		case 2: // random flip, biased to the header
			off := t.Choose(rt.SFault, len(m))
			if t.Choose(rt.SFault, 2) == 0 {
				off = t.Choose(rt.SFault, min(len(m), 80))
			}
			m[off] ^= byte(1 + t.Choose(rt.SFault, 255))
			desc = fmt.Sprintf("xor byte %d", off)
			res.Faults["byte-flip"]++
		case 3: // extension by valid records of another file
			k := 1 + t.Choose(rt.SFault, min(len(odata), 60))
			m = append(m, odata[len(odata)-k:]...)
			desc = fmt.Sprintf("extend by the last %d bytes of another valid file", k)
			res.Faults["extend-valid"]++
		case 4: // extension by one more gate record of this file
			if format == 0 && base.NumGates > 0 {
				g := base.Gates[t.Choose(rt.SFault, base.NumGates)]
				var rec bytes.Buffer
				rec.WriteByte(byte(g.Op))
				binary.Write(&rec, binary.BigEndian, uint32(g.Input0))
				if g.Op != circuit.INV {
					binary.Write(&rec, binary.BigEndian, uint32(g.Input1))
				}
				binary.Write(&rec, binary.BigEndian, uint32(g.Output))
				m = append(m, rec.Bytes()...)
				desc = "extend by a copy of one of its own gate records"
			} else {
				ext := make([]byte, 1+t.Choose(rt.SFault, 30))
				rnd.Read(ext)
				m = append(m, ext...)
				desc = fmt.Sprintf("extend by %d random bytes", len(ext))
			}
			res.Faults["extend-record"]++
		case 5: // splice a field of another valid file in
			off := t.Choose(rt.SFault, len(m))
			l := 1 + t.Choose(rt.SFault, 40)
			so := t.Choose(rt.SFault, len(odata))
			for j := 0; j < l && off+j < len(m) && so+j < len(odata); j++ {
				m[off+j] = odata[so+j]
			}
			desc = fmt.Sprintf("splice %d bytes at %d", l, off)
			res.Faults["splice"]++
		case 6: // 32-bit field to a boundary value (mpclc) / a number to a boundary value (bristol)
			vals := []uint32{0, 1, 2, 0x7fffffff, 0x80000000, 0xffffffff, sizeLimit, sizeLimit - 1, 65535, 65536}
			v := vals[t.Choose(rt.SFault, len(vals))]
			if format == 0 {
				off := 4 * t.Choose(rt.SFault, max(1, min(len(m)/4, 40)))
				if t.Choose(rt.SFault, 3) == 0 {
					off = t.Choose(rt.SFault, max(1, len(m)-4))
				}
				if off+4 <= len(m) {
					binary.BigEndian.PutUint32(m[off:], v)
				}
				desc = fmt.Sprintf("u32 field at %d = %#x", off, v)
			} else {
				f := strings.Fields(string(m))
				if len(f) > 0 {
					target := t.Choose(rt.SFault, min(len(f), 30))
					// replace the target-th number
					idx, cnt := 0, 0
					s := string(m)
					for p := 0; p < len(s); {
						for p < len(s) && (s[p] == ' ' || s[p] == '\n') {
							p++
						}
						q := p
						for q < len(s) && s[q] != ' ' && s[q] != '\n' {
							q++
						}
						if cnt == target {
							s = s[:p] + fmt.Sprint(v) + s[q:]
							idx = p
							break
						}
						cnt++
						p = q
					}
					m = []byte(s)
					desc = fmt.Sprintf("number #%d (at %d) = %d", target, idx, v)
				}
			}
			res.Faults["length-field"]++
		case 7: // two faults
			off := t.Choose(rt.SFault, len(m))
			m[off] ^= 1 << t.Choose(rt.SFault, 8)
			cut := t.Choose(rt.SFault, len(m))
			if t.Choose(rt.SFault, 2) == 0 {
				m = m[:cut]
			}
			desc = fmt.Sprintf("flip byte %d and maybe truncate to %d", off, cut)
			res.Faults["multi"]++
		}
		rt.LogBytes('m', []byte(desc))
		if !declaredSizesOK(format, m) {
			res.Reach["discarded: declared size above one million"]++
			continue
		}
		rmode := 0
		if t.Choose(rt.SFault, 4) == 0 {
			rmode = 2
		}
		if f := judge(res, smp, format, m, data, base, desc, rmode); f != nil {
			return f, format, data, base
		}
	}
	return nil, format, data, base
}

// judge parses one damaged file and applies the property's outcome set.
func judge(res *core.Result, smp *sample, format int, m, data []byte, base *circuit.Circuit, desc string, rmode int) *core.Failure {
	pr := safeParse(format, m, rmode, 0)
	where := fmt.Sprintf("%s file of %d bytes (%s), damage: %s", smp.Format, len(data), gen.Describe(base), desc)
	switch {
	case pr.hung:
		return &core.Failure{Clause: "parse-hangs", Detail: fmt.Sprintf("%s: the parse did not return within %v (the reader reported EOF %d times)", where, hangLimit, pr.eofs)}
	case pr.eofs > 1000:
		return &core.Failure{Clause: "parse-hangs", Detail: fmt.Sprintf("%s: the parser kept calling Read %d times after EOF", where, pr.eofs)}
	case pr.panicV != nil:
		smp.Faults = []string{desc}
		return &core.Failure{Clause: "panic", Detail: fmt.Sprintf("%s: panic: %v\n%s", where, pr.panicV, pr.stack)}
	case pr.allocNo:
		res.Reach["allocation refused (not a verdict)"]++
	case pr.err != nil:
		res.Reach["rejected-with-error"]++
	default:
		if bad := wellFormed(pr.circ); bad != "" {
			smp.Faults = []string{desc}
			return &core.Failure{Clause: "accepted-malformed", Detail: fmt.Sprintf("%s: the parser returned a circuit without error, but %s", where, bad)}
		}
		res.Reach["accepted-well-formed"]++
	}
	return nil
}
