// Package mulgadgets is the simulated world for C20: vole.Sender/Receiver.Mul
// and bmr.Fx*/Fxk* over p2p.Conn on a simulated pipe.
package mulgadgets

import (
	"fmt"
	"math/big"

	"github.com/markkurossi/mpc/bmr"
	"github.com/markkurossi/mpc/ot"
	"github.com/markkurossi/mpc/p2p"
	"github.com/markkurossi/mpc/vole"

	"verifsim/sim/rt"
	"verifsim/sim/simio"
	"verifsim/sim/simnet"
	"verifsim/sim/simrand"
	"verifsim/worlds/core"
)

func init() {
	core.Register("C20", func(tier string) core.World { return &world{tier: tier} })
}

type world struct{ tier string }

func mustBig(s string) *big.Int {
	v, ok := new(big.Int).SetString(s, 0)
	if !ok {
		panic(s)
	}
	return v
}

var moduli = []*big.Int{
	mustBig("0xffffffff00000001000000000000000000000000ffffffffffffffffffffffff"), // P-256 prime
	new(big.Int).Sub(new(big.Int).Lsh(big.NewInt(1), 255), big.NewInt(19)),        // 2^255-19
	new(big.Int).Sub(new(big.Int).Lsh(big.NewInt(1), 256), big.NewInt(189)),       // 2^256-189
	big.NewInt(2), big.NewInt(3), big.NewInt(65537),
	mustBig("0xffffffffffffffffffffffffffffffff000000000000000000000001"), // P-224 prime
}

// 2047..2049, 4095..4097, 5000: the packed vectors (32 bytes per element) cross the
// connection layer's 64 KiB write buffer once, twice and more
var lengths = []int{1, 2, 7, 8, 9, 63, 64, 65, 511, 512, 513, 1023, 1024, 1025, 2000, 2047, 2048, 2049, 4095, 4096, 4097, 5000}

func drawElem(t *rt.Tape, p *big.Int, r *simrand.DRBG) *big.Int {
	switch t.Choose(rt.SGen, 6) {
	case 0:
		return new(big.Int)
	case 1:
		return new(big.Int).Mod(big.NewInt(1), p)
	case 2:
		return new(big.Int).Sub(p, big.NewInt(1))
	case 3:
		// "for all inputs": a representative outside [0, p) - negative, or p and more (still at most
		// 256 bits: the vectors travel in 32-byte slots)
		b := make([]byte, 40)
		r.Read(b)
		v := new(big.Int).Mod(new(big.Int).SetBytes(b), p)
		switch t.Choose(rt.SGen, 3) {
		case 0:
			return v.Sub(v, p) // in [-p, 0)
		case 1:
			return v.Neg(v)
		default:
			if w := new(big.Int).Add(v, p); w.BitLen() <= 256 {
				return w
			}
			return v
		}
	default:
		b := make([]byte, 40)
		r.Read(b)
		return new(big.Int).Mod(new(big.Int).SetBytes(b), p)
	}
}

type sample struct {
	Scenario string
	Modulus  string `json:",omitempty"`
	Lengths  []int  `json:",omitempty"`
	Base     string `json:",omitempty"`
	AB       string `json:",omitempty"`
	Pipe     string
}

func (w *world) Run(t *rt.Tape, trace bool) *core.Result {
	res := &core.Result{Reach: map[string]int{}}
	core.BeginRun(t)
	ab, s1 := core.DrawDir(t, core.Caps)
	ba, s2 := core.DrawDir(t, core.Caps)
	for _, d := range []*simnet.DirConfig{&ab, &ba} {
		if d.Frag == simnet.FragOne {
			d.Frag = simnet.FragField
		}
	}
	small := s1 || s2
	pipe := simnet.PipeConfig{AB: ab, BA: ba}
	rS, rR, rH := simrand.Stream("S"), simrand.Stream("R"), simrand.Stream("harness")
	smp := sample{Pipe: core.DescribeDir(ab) + " / " + core.DescribeDir(ba)}
	scenario := t.Choose(rt.SGen, 4) // 0,1 vole; 2 fx; 3 fxk
	// one case in five runs over the library's own in-memory transports (p2p.Pipe for vole,
	// ot.NewPipe for the bit/string gadgets): synchronous io.Pipes
	libPipe := t.Choose(rt.SGen, 5) == 0
	if libPipe {
		smp.Pipe = "library in-memory pipe (p2p.Pipe / ot.NewPipe)"
		res.Reach["transport.library-pipe"]++
	}

	var failure *core.Failure
	fail := func(clause, detail string) {
		if failure == nil {
			failure = &core.Failure{Clause: clause, Detail: detail}
		}
	}
	var sDone, rDone bool
	var check func()
	var body func()

	switch scenario {
	case 0, 1:
		p := moduli[t.Choose(rt.SGen, len(moduli))]
		if t.Choose(rt.SGen, 4) == 0 { // random odd modulus <= 256 bits
			bits := 2 + t.Choose(rt.SGen, 255)
			b := make([]byte, 32)
			rH.Read(b)
			p = new(big.Int).SetBytes(b)
			p.Rsh(p, uint(256-bits))
			p.SetBit(p, bits-1, 1)
			p.SetBit(p, 0, 1)
		}
		calls := 1 + t.Choose(rt.SGen, 3)
		var lens []int
		for i := 0; i < calls; i++ {
			n := lengths[t.Choose(rt.SGen, len(lengths))]
			if t.Choose(rt.SGen, 3) == 0 {
				n = 1 + t.Choose(rt.SGen, 6000)
			}
			if !small && i == 0 && t.Choose(rt.SGen, 150) == 0 {
				// bulk preprocessing: more than 2^15 elements (a megabyte of packed vector and more)
				n = []int{32769, 32768, 33000, 40000}[t.Choose(rt.SGen, 4)]
				calls = 1
			}
			if small && n > 300 {
				n = 1 + n%300
			}
			lens = append(lens, n)
		}
		realBase := t.Choose(rt.SGen, 3) == 0
		smp.Scenario, smp.Modulus, smp.Lengths = "vole.Mul", "0x"+p.Text(16), lens
		smp.Base = map[bool]string{true: "real Chou-Orlandi base OTs", false: "stub base OT"}[realBase]
		xs := make([][]*big.Int, calls)
		ys := make([][]*big.Int, calls)
		rs := make([][]*big.Int, calls)
		us := make([][]*big.Int, calls)
		for i, n := range lens {
			xs[i] = make([]*big.Int, n)
			ys[i] = make([]*big.Int, n)
			for j := 0; j < n; j++ {
				xs[i][j] = drawElem(t, p, rH)
				ys[i][j] = drawElem(t, p, rH)
			}
		}
		body = func() {
			ea, eb := simnet.Pipe("S", "R", pipe)
			ca, cb := p2p.NewConn(ea), p2p.NewConn(eb)
			if libPipe {
				ca, cb = p2p.Pipe()
			}
			rt.GoParty("S", "vole-sender", func() {
				var base ot.OT = &simio.ClearOT{}
				if realBase {
					base = ot.NewCO(rS)
				}
				s, err := vole.NewSender(base, ca, rS)
				if err != nil {
					fail("sender-error", "NewSender: "+err.Error())
					return
				}
				for i := range lens {
					rs[i], err = s.Mul(xs[i], p)
					if err != nil {
						fail("sender-error", fmt.Sprintf("Mul call %d (m=%d): %v", i, lens[i], err))
						return
					}
				}
				sDone = true
				ca.Close()
			})
			rt.GoParty("R", "vole-receiver", func() {
				var base ot.OT = &simio.ClearOT{}
				if realBase {
					base = ot.NewCO(rR)
				}
				r, err := vole.NewReceiver(base, cb, rR)
				if err != nil {
					fail("receiver-error", "NewReceiver: "+err.Error())
					return
				}
				for i := range lens {
					us[i], err = r.Mul(ys[i], p)
					if err != nil {
						fail("receiver-error", fmt.Sprintf("Mul call %d (m=%d): %v", i, lens[i], err))
						return
					}
				}
				rDone = true
				cb.Close()
			})
		}
		check = func() {
			for i, n := range lens {
				if len(rs[i]) != n || len(us[i]) != n {
					fail("vole-length", fmt.Sprintf("call %d: m=%d, sender returned %d shares, receiver %d", i, n, len(rs[i]), len(us[i])))
					return
				}
				for j := 0; j < n; j++ {
					lhs := new(big.Int).Sub(us[i][j], rs[i][j])
					lhs.Mod(lhs, p)
					rhs := new(big.Int).Mul(xs[i][j], ys[i][j])
					rhs.Mod(rhs, p)
					if lhs.Cmp(rhs) != 0 {
						fail("vole-product", fmt.Sprintf("call %d of lengths %v, index %d: (u - r) mod p = %s, x*y mod p = %s (x=%s y=%s p=0x%s)", i, lens, j, lhs, rhs, xs[i][j], ys[i][j], p.Text(16)))
						return
					}
				}
			}
		}
	case 2, 3:
		k := t.Choose(rt.SGen, 3) // OT: CO, COT, COT-malicious
		mk := func(r *simrand.DRBG) ot.OT {
			switch k {
			case 0:
				return ot.NewCO(r)
			case 1:
				return ot.NewCOT(&simio.ClearOT{}, r, false, false)
			default:
				return ot.NewCOT(&simio.ClearOT{}, r, true, false)
			}
		}
		// one or two sessions served by the same two processes at once (as the
		// BMR player's per-peer goroutines do), each with its own connection and OT
		ns := 1 + t.Choose(rt.SGen, 2)
		type fxs struct {
			reps         int
			as, bs       []uint
			rbits, xbits []uint
			sl, rl, xl   []bmr.Label
			sDone, rDone bool
		}
		smp.Scenario = map[int]string{2: "bmr.FxSend/FxReceive", 3: "bmr.FxkSend/FxkReceive"}[scenario] + " over " + []string{"CO", "COT", "COT-malicious"}[k]
		if ns == 2 {
			smp.Scenario += ", two concurrent sessions per process"
			res.Reach["fx.two-concurrent-sessions"]++
		}
		var ss []*fxs
		for q := 0; q < ns; q++ {
			a := uint(t.Choose(rt.SGen, 2))
			b := uint(t.Choose(rt.SGen, 2))
			x := &fxs{reps: 1 + t.Choose(rt.SGen, 6)}
			smp.AB += fmt.Sprintf("[a=%d b=%d x%d] ", a, b, x.reps)
			x.rbits, x.xbits = make([]uint, x.reps), make([]uint, x.reps)
			x.as, x.bs = make([]uint, x.reps), make([]uint, x.reps)
			x.rl, x.xl = make([]bmr.Label, x.reps), make([]bmr.Label, x.reps)
			for i := 0; i < x.reps; i++ {
				x.as[i], x.bs[i] = (a+uint(i))%2, (b+uint(i/2))%2
				var l bmr.Label
				rH.Read(l[:])
				if t.Choose(rt.SGen, 8) == 0 {
					l = bmr.Label{}
				}
				x.sl = append(x.sl, l)
			}
			ss = append(ss, x)
		}
		body = func() {
			for q, x := range ss {
				q, x := q, x
				ea, eb := simnet.Pipe(fmt.Sprintf("S%d", q), fmt.Sprintf("R%d", q), pipe)
				var ca, cb interface {
					ot.IO
					Close() error
				} = p2p.NewConn(ea), p2p.NewConn(eb)
				if libPipe {
					ca, cb = ot.NewPipe()
				}
				rt.GoParty("S", fmt.Sprintf("fx-sender-%d", q), func() {
					o := mk(simrand.Stream(fmt.Sprintf("S%d", q)))
					if err := o.InitSender(ca); err != nil {
						fail("sender-error", err.Error())
						return
					}
					for i := 0; i < x.reps; i++ {
						var err error
						if scenario == 2 {
							x.rbits[i], err = bmr.FxSend(o, x.as[i])
						} else {
							x.rl[i], err = bmr.FxkSend(o, x.sl[i])
						}
						if err != nil {
							fail("sender-error", err.Error())
							return
						}
					}
					x.sDone = true
					ca.Close()
				})
				rt.GoParty("R", fmt.Sprintf("fx-receiver-%d", q), func() {
					o := mk(simrand.Stream(fmt.Sprintf("R%d", q)))
					if err := o.InitReceiver(cb); err != nil {
						fail("receiver-error", err.Error())
						return
					}
					for i := 0; i < x.reps; i++ {
						var err error
						if scenario == 2 {
							x.xbits[i], err = bmr.FxReceive(o, x.bs[i])
						} else {
							x.xl[i], err = bmr.FxkReceive(o, x.bs[i])
						}
						if err != nil {
							fail("receiver-error", err.Error())
							return
						}
					}
					x.rDone = true
					cb.Close()
				})
			}
		}
		sDone, rDone = true, true // replaced by the per-session flags in check
		check = func() {
			for q, x := range ss {
				if !x.sDone || !x.rDone {
					fail("did-not-terminate", fmt.Sprintf("session %d: sender done=%v receiver done=%v", q, x.sDone, x.rDone))
					return
				}
				for i := 0; i < x.reps; i++ {
					if scenario == 2 {
						if x.rbits[i]^x.xbits[i] != x.as[i]*x.bs[i] || x.rbits[i] > 1 || x.xbits[i] > 1 {
							fail("fx-product", fmt.Sprintf("Fx session %d of %d, repetition %d: a=%d b=%d, shares r=%d xb=%d, r xor xb = %d != a*b", q, ns, i, x.as[i], x.bs[i], x.rbits[i], x.xbits[i], x.rbits[i]^x.xbits[i]))
							return
						}
					} else {
						want := bmr.Label{}
						if x.bs[i] == 1 {
							want = x.sl[i]
						}
						got := x.rl[i]
						got.Xor(x.xl[i])
						if !got.Equal(want) {
							fail("fxk-product", fmt.Sprintf("Fxk session %d of %d, repetition %d: b=%d s=%v, r xor xb = %v != b*s = %v", q, ns, i, x.bs[i], x.sl[i], got, want))
							return
						}
					}
				}
			}
		}
	}
	res.Sample = smp
	res.Class = smp.Scenario
	rr := rt.Run(rt.Config{Trace: trace, NoProgress: core.NoProgressDefault}, t, body)
	core.Finish(res, rr)
	res.Nontrivial = rr.Switches > 2
	res.Reach["scenario."+smp.Scenario]++
	for _, n := range smp.Lengths {
		if n > 512 {
			res.Reach["vole.multi-chunk"]++
		}
	}
	if len(smp.Lengths) > 1 {
		res.Reach["vole.repeated-mul-on-one-instance"]++
	}
	if res.Inconclusive != "" {
		return res
	}
	if len(rr.Crashed) > 0 {
		res.Fail = &core.Failure{Clause: "panic", Detail: core.CrashDetail(rr)}
		return res
	}
	if failure == nil && (!sDone || !rDone) {
		fail("did-not-terminate", fmt.Sprintf("%v: sender done=%v receiver done=%v; %v", rr.Outcome, sDone, rDone, rr.Blocked))
	}
	if failure == nil {
		check()
	}
	res.Fail = failure
	return res
}
