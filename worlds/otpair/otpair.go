// Package otpair is the simulated world for C06: an OT sender and an OT
// receiver task over p2p.Conn on a simulated pipe, or over a message-level
// ot.IO; every OT implementation, batch sizes across all chunk boundaries,
// repeated batches on one initialised instance.
package otpair

import (
	"bytes"
	"crypto/elliptic"
	"crypto/rsa"
	"fmt"
	"math/big"
	"regexp"

	"github.com/markkurossi/mpc/ot"
	"github.com/markkurossi/mpc/p2p"

	"verifsim/sim/rt"
	"verifsim/sim/simio"
	"verifsim/sim/simnet"
	"verifsim/sim/simrand"
	"verifsim/worlds/core"
)

func init() {
	core.Register("C06", func(tier string) core.World { return &world{tier: tier} })
}

type world struct{ tier string }

// digits: the numbers in a scenario description (batch sizes, byte offsets) do not make a reach counter of their own
var digits = regexp.MustCompile(`[0-9]+|: \[[^\]]*\]`)

// Sizes are the batch sizes around every internal boundary (8, 64, 128, the
// 512-row chunk).
var Sizes = []int{1, 2, 3, 4, 5, 6, 7, 8, 9, 15, 16, 17, 63, 64, 65, 127, 128, 129, 255, 256, 257, 511, 512, 513, 1023, 1024, 1025, 1535, 1536, 1537, 2047, 2048, 2049}

const (
	scOT         = iota // ot.OT implementations: Send/Receive of chosen labels
	scIKNP              // raw IKNP label form
	scIKNPBits          // raw IKNP packed-bit form
	scHelpers           // pure Chou-Orlandi helpers as a message exchange
	scPrimitives        // the step-by-step transfer objects of ot/rsa.go and ot/co.go, messages carried by the caller
)

const (
	kCO = iota
	kRSA
	kCOT
	kCOTMal
	kROT
	kROTMal
	numKinds
)

var kindNames = []string{"CO", "RSA-1024", "COT", "COT-malicious", "ROT", "ROT-malicious"}

func drawSize(t *rt.Tape, max int) int {
	for {
		var n int
		switch t.Choose(rt.SGen, 3) {
		case 0, 1:
			n = Sizes[t.Choose(rt.SGen, len(Sizes))]
		default:
			n = 1 + t.Choose(rt.SGen, 2100)
		}
		if n <= max {
			return n
		}
		if t.Choose(rt.SGen, 2) == 0 {
			return 1 + t.Choose(rt.SGen, max)
		}
	}
}

func drawChoices(t *rt.Tape, n int, r *simrand.DRBG) []bool {
	b := make([]bool, n)
	switch t.Choose(rt.SGen, 5) {
	case 0: // all zero
	case 1:
		for i := range b {
			b[i] = true
		}
	case 2:
		for i := range b {
			b[i] = i%2 == 1
		}
	case 3: // only the last
		b[n-1] = true
	default:
		buf := make([]byte, (n+7)/8)
		r.Read(buf)
		for i := range b {
			b[i] = buf[i/8]>>(i%8)&1 == 1
		}
	}
	return b
}

type sample struct {
	Scenario  string
	Kind      string `json:",omitempty"`
	Transport string
	Base      string `json:",omitempty"`
	Shared    bool   `json:",omitempty"`
	Batches   []int
}

type link struct {
	s, r   ot.IO
	closeS func()
	closeR func()
	ea     *simnet.Endpoint
}

func (w *world) Run(t *rt.Tape, trace bool) *core.Result {
	res := &core.Result{}
	core.BeginRun(t)
	scenario := []int{scOT, scOT, scIKNP, scIKNPBits, scIKNPBits, scHelpers, scOT, scIKNP, scPrimitives}[t.Choose(rt.SGen, 9)]
	useConn := t.Choose(rt.SGen, 3) != 0
	// one message-level case in three runs over the library's own in-memory ot.IO (ot.NewPipe: two
	// synchronous io.Pipes - every send blocks until the other end has read all of it, and
	// ReceiveData hands out a slice of the pipe's one read buffer)
	usePipe := !useConn && t.Choose(rt.SGen, 3) == 0
	pipe, _ := func() (simnet.PipeConfig, bool) {
		a, s1 := core.DrawDir(t, core.Caps)
		b, s2 := core.DrawDir(t, core.Caps)
		return simnet.PipeConfig{AB: a, BA: b}, s1 || s2
	}()
	// byte-wise delivery of large OT transcripts is slow and adds nothing here
	if pipe.AB.Frag == simnet.FragOne {
		pipe.AB.Frag = simnet.FragField
	}
	if pipe.BA.Frag == simnet.FragOne {
		pipe.BA.Frag = simnet.FragField
	}
	smp := sample{Transport: "message-level ot.IO"}
	if useConn {
		smp.Transport = "p2p.Conn " + core.DescribeDir(pipe.AB) + " / " + core.DescribeDir(pipe.BA)
	}
	small := useConn && (pipe.AB.Frag == simnet.FragField || pipe.BA.Frag == simnet.FragField || (pipe.AB.Cap >= 0 && pipe.AB.Cap <= 16) || (pipe.BA.Cap >= 0 && pipe.BA.Cap <= 16))

	rS := simrand.Stream("S")
	rR := simrand.Stream("R")
	rH := simrand.Stream("harness")

	var failure *core.Failure
	fail := func(clause, detail string) {
		if failure == nil {
			failure = &core.Failure{Clause: clause, Detail: detail}
		}
	}
	var sDone, rDone bool
	// message-level transport: in half of the cases SendData consumes its payload late and
	// sometimes blocks first (back-pressure)
	slowSend := 0
	if usePipe {
		smp.Transport = "ot.NewPipe (the library's in-memory ot.IO)"
	} else if !useConn && t.Choose(rt.SGen, 2) == 0 {
		slowSend = []int{2, 4, 16}[t.Choose(rt.SGen, 3)]
		smp.Transport += fmt.Sprintf(" (SendData blocks before consuming its payload, one call in %d)", slowSend)
	}
	var mk func() link
	mk = func() link {
		if useConn {
			ea, eb := simnet.Pipe("S", "R", pipe)
			ca, cb := p2p.NewConn(ea), p2p.NewConn(eb)
			return link{s: ca, r: cb, closeS: func() { ca.Close() }, closeR: func() { cb.Close() }, ea: ea}
		}
		if usePipe {
			a, b := ot.NewPipe()
			return link{s: a, r: b, closeS: func() { a.Close() }, closeR: func() { b.Close() }}
		}
		a, b := simio.Pair("S", "R")
		a.SlowSend, b.SlowSend = slowSend, slowSend
		return link{s: a, r: b, closeS: a.Close, closeR: b.Close}
	}
	newBase := func(r *simrand.DRBG, real bool) ot.OT {
		if real {
			return ot.NewCO(r)
		}
		return &simio.ClearOT{}
	}

	var body func()
	switch scenario {
	case scOT:
		kind := t.Choose(rt.SGen, numKinds)
		if kind == kRSA && t.Choose(rt.SGen, 3) != 0 {
			kind = kCO
		}
		shared := t.Choose(rt.SGen, 2) == 1
		// key sizes that are not a multiple of 8 leave the padded message far
		// below the modulus, which makes modular wrap-around of the masked
		// messages thousands of times more likely than with 1024 or 2048 bits
		rsaBits := []int{1024, 1025, 1031, 1027, 1024, 1279}[t.Choose(rt.SGen, 6)]
		maxN := 2100
		if kind == kCO {
			maxN = 130
			if small {
				maxN = 20
			}
		} else if kind == kRSA {
			maxN = 40
			if small {
				maxN = 3
			}
		} else if small {
			maxN = 300
		}
		nb := 1 + t.Choose(rt.SGen, 4)
		var batches []int
		for i := 0; i < nb; i++ {
			batches = append(batches, drawSize(t, maxN))
		}
		smp.Scenario, smp.Kind, smp.Shared, smp.Batches = "ot.OT Send/Receive", kindNames[kind], shared, batches
		if kind == kRSA {
			smp.Base = fmt.Sprintf("RSA key size %d bits", rsaBits)
		}
		realBase := t.Choose(rt.SGen, 4) == 0 || small == false && t.Choose(rt.SGen, 3) == 0
		if kind >= kCOT {
			smp.Base = map[bool]string{true: "real Chou-Orlandi base OTs", false: "stub base OT (labels in clear)"}[realBase]
		}
		mkOT := func(r *simrand.DRBG) ot.OT {
			switch kind {
			case kCO:
				return ot.NewCO(r)
			case kRSA:
				return ot.NewRSA(r, rsaBits)
			case kCOT:
				return ot.NewCOT(newBase(r, realBase), r, false, shared)
			case kCOTMal:
				return ot.NewCOT(newBase(r, realBase), r, true, shared)
			case kROT:
				return ot.NewROT(newBase(r, realBase), r, false, shared)
			default:
				return ot.NewROT(newBase(r, realBase), r, true, shared)
			}
		}
		isROT := kind == kROT || kind == kROTMal
		// One case in four: the two processes run a second, independent OT session of the same
		// kind at the same time (a server with two clients): own connection, own OT objects, own
		// randomness streams. Whatever the implementation keeps outside its objects is shared.
		nsess := 1
		if t.Choose(rt.SGen, 4) == 0 {
			nsess = 2
			smp.Scenario += " (two sessions at the same time in the same two processes)"
		}
		type session struct {
			batches      []int
			wires        [][]ot.Wire
			choices      [][]bool
			got          [][]ot.Label
			sDone, rDone bool
			// misuse[i]: the receiver calls Receive with a result slice one label too long (an
			// application slip the implementation answers with an error); the sender sends batch i
			// all the same; the batch is not judged, those after it are - fail, then carry on
			misuse []bool
		}
		sess := make([]*session, nsess)
		for k := range sess {
			ss := &session{batches: batches}
			if k > 0 {
				ss.batches = nil
				for i := 0; i < 1+t.Choose(rt.SGen, 3); i++ {
					ss.batches = append(ss.batches, drawSize(t, maxN))
				}
				smp.Batches = append(append([]int{}, batches...), ss.batches...)
			}
			n := len(ss.batches)
			ss.wires, ss.choices, ss.got = make([][]ot.Wire, n), make([][]bool, n), make([][]ot.Label, n)
			ss.misuse = make([]bool, n)
			if kind == kCO && n > 1 && t.Choose(rt.SGen, 4) == 0 {
				ss.misuse[t.Choose(rt.SGen, n-1)] = true
				smp.Scenario += " (one Receive is called with a result slice of the wrong length; later batches are judged)"
			}
			for i, n := range ss.batches {
				ss.wires[i] = make([]ot.Wire, n)
				if !isROT {
					for j := range ss.wires[i] {
						ss.wires[i][j].L0, _ = ot.NewLabel(rH)
						ss.wires[i][j].L1, _ = ot.NewLabel(rH)
					}
				}
				ss.choices[i] = drawChoices(t, n, rH)
				ss.got[i] = make([]ot.Label, n)
				if t.Choose(rt.SGen, 2) == 0 { // a result buffer the caller has used before
					for j := range ss.got[i] {
						ss.got[i][j], _ = ot.NewLabel(rH)
					}
				}
			}
			sess[k] = ss
		}
		reinit := shared && kind >= kCOT && t.Choose(rt.SGen, 2) == 1
		// One p2p.Conn case in five (OT objects that are initialised anew by every Init call: CO and
		// RSA; a shared COT/ROT is bound to its first connection for good): fail, then carry on. The pair first runs a batch over a connection that is reset
		// at a tape-chosen byte; both ends give it up; then the same OT objects are initialised over a
		// fresh connection and the batches of the case follow. Only those are judged.
		prelude := useConn && (kind == kCO || kind == kRSA) && t.Choose(rt.SGen, 5) == 0
		var preCut uint64
		var preDir, preN int
		var preWires []ot.Wire
		var preChoices []bool
		if prelude {
			preCut = uint64(t.Choose(rt.SGen, 1<<uint(2+t.Choose(rt.SGen, 14))))
			preDir = t.Choose(rt.SGen, 2)
			preN = drawSize(t, min(maxN, 600))
			preWires = make([]ot.Wire, preN)
			if !isROT {
				for j := range preWires {
					preWires[j].L0, _ = ot.NewLabel(rH)
					preWires[j].L1, _ = ot.NewLabel(rH)
				}
			}
			preChoices = drawChoices(t, preN, rH)
			smp.Scenario += fmt.Sprintf(" (preceded by a batch of %d over a connection reset at byte %d of direction %d, same OT objects)", preN, preCut, preDir)
			res.Reach = map[string]int{"fail-then-carry-on": 1}
		}
		body = func() {
			var pea, peb *simnet.Endpoint
			if prelude {
				pp := pipe
				f := simnet.Fault{Kind: simnet.FaultReset, Off: preCut}
				if preDir == 0 {
					pp.AB.Faults = []simnet.Fault{f}
				} else {
					pp.BA.Faults = []simnet.Fault{f}
				}
				pea, peb = simnet.Pipe("S0", "R0", pp)
			}
			for k, ss := range sess {
				k, ss := k, ss
				l := mk()
				rSk, rRk := rS, rR
				if k > 0 {
					rSk, rRk = simrand.Stream("S2"), simrand.Stream("R2")
				}
				rt.GoParty("S", fmt.Sprintf("sender%d", k), func() {
					o := mkOT(rSk)
					if prelude && k == 0 {
						c0 := p2p.NewConn(pea)
						err := o.InitSender(c0)
						if err == nil {
							err = o.Send(preWires)
						}
						if err == nil {
							c0.Close()
						} else {
							rt.Reach("fail-then-carry-on.sender-saw-the-failure")
						}
						pea.Abort()
					}
					if err := o.InitSender(l.s); err != nil {
						fail("sender-error", "InitSender: "+err.Error())
						return
					}
					for i := range ss.batches {
						if reinit && i > 0 {
							if err := o.InitSender(l.s); err != nil {
								fail("sender-error", fmt.Sprintf("repeated InitSender on a shared instance: %v", err))
								return
							}
						}
						if err := o.Send(ss.wires[i]); err != nil {
							fail("sender-error", fmt.Sprintf("session %d: Send batch %d (n=%d): %v", k, i, ss.batches[i], err))
							return
						}
					}
					ss.sDone = true
					sDone = true
					for _, x := range sess {
						sDone = sDone && x.sDone
					}
					l.closeS()
				})
				rt.GoParty("R", fmt.Sprintf("receiver%d", k), func() {
					o := mkOT(rRk)
					if prelude && k == 0 {
						c0 := p2p.NewConn(peb)
						err := o.InitReceiver(c0)
						if err == nil {
							err = o.Receive(preChoices, make([]ot.Label, preN))
						}
						if err == nil {
							c0.Close()
						} else {
							rt.Reach("fail-then-carry-on.receiver-saw-the-failure")
						}
						peb.Abort()
					}
					if err := o.InitReceiver(l.r); err != nil {
						fail("receiver-error", "InitReceiver: "+err.Error())
						return
					}
					for i := range ss.batches {
						if reinit && i > 0 {
							if err := o.InitReceiver(l.r); err != nil {
								fail("receiver-error", fmt.Sprintf("repeated InitReceiver on a shared instance: %v", err))
								return
							}
						}
						if ss.misuse[i] {
							if err := o.Receive(ss.choices[i], make([]ot.Label, ss.batches[i]+1)); err != nil {
								rt.Reach("fail-then-carry-on.receive-refused-a-wrong-result-length")
							}
							continue
						}
						if err := o.Receive(ss.choices[i], ss.got[i]); err != nil {
							fail("receiver-error", fmt.Sprintf("session %d: Receive batch %d (n=%d): %v", k, i, ss.batches[i], err))
							return
						}
					}
					ss.rDone = true
					rDone = true
					for _, x := range sess {
						rDone = rDone && x.rDone
					}
					l.closeR()
				})
			}
		}
		defer func() {
			if failure != nil || !sDone || !rDone {
				return
			}
			for k, ss := range sess {
				for i := range ss.batches {
					if ss.misuse[i] {
						continue
					}
					for j := range ss.got[i] {
						want := ss.wires[i][j].L0
						if ss.choices[i][j] {
							want = ss.wires[i][j].L1
						}
						if !ss.got[i][j].Equal(want) {
							failure = &core.Failure{Clause: "wrong-label", Detail: fmt.Sprintf("%s session %d of %d, batch %d of %v position %d/%d choice=%v: receiver has %v, sender's chosen label is %v", kindNames[kind], k, nsess, i, ss.batches, j, ss.batches[i], ss.choices[i][j], ss.got[i][j], want)}
							res.Fail = failure
							return
						}
					}
				}
			}
		}()

	case scIKNP, scIKNPBits:
		bits := scenario == scIKNPBits
		maxN := 2100
		if small {
			maxN = 600
		}
		nb := 1 + t.Choose(rt.SGen, 4)
		var batches []int
		for i := 0; i < nb; i++ {
			batches = append(batches, drawSize(t, maxN))
		}
		realBase := t.Choose(rt.SGen, 4) == 0
		// one case in six sets the extension up over the library's random OT (itself
		// IKNP over Chou-Orlandi): a base OT whose Send replaces the caller's labels
		// by its own pads
		rotBase := t.Choose(rt.SGen, 6) == 0
		mal := !bits && t.Choose(rt.SGen, 2) == 1
		smp.Scenario = map[bool]string{false: "raw IKNP Send/Receive (label form)", true: "raw IKNP SendBits/ReceiveBits (packed-bit form)"}[bits]
		if mal {
			smp.Scenario += " malicious"
		}
		smp.Batches = batches
		smp.Base = map[bool]string{true: "real Chou-Orlandi base OTs", false: "stub base OT (labels in clear)"}[realBase]
		if rotBase {
			smp.Base = "random OT (ot.ROT over Chou-Orlandi) as base OT"
		}
		dirtyBits := t.Choose(rt.SGen, 2) == 0
		choices := make([][]bool, nb)
		sent := make([][]ot.Label, nb)
		recv := make([][]ot.Label, nb)
		sentBits := make([][]uint64, nb)
		recvBits := make([][]uint64, nb)
		for i, n := range batches {
			choices[i] = drawChoices(t, n, rH)
			recv[i] = make([]ot.Label, n)
			if t.Choose(rt.SGen, 2) == 0 { // a result buffer the caller has used before
				for j := range recv[i] {
					recv[i][j], _ = ot.NewLabel(rH)
				}
			}
			sentBits[i] = make([]uint64, (n+63)/64)
			recvBits[i] = make([]uint64, (n+63)/64)
			if dirtyBits {
				// result buffers the caller has used before ("existing contents are overwritten")
				for j := range sentBits[i] {
					sentBits[i][j], recvBits[i][j] = uint64(t.Raw(rt.SGen, nil))*0x9e3779b97f4a7c15|1, ^uint64(0)
				}
			}
		}
		// the form of each batch: all label form or all packed-bit form (the scenario), or - one
		// case in three with several batches - mixed on one sender/receiver pair
		form := make([]bool, nb)
		for i := range form {
			form[i] = bits
		}
		if nb > 1 && t.Choose(rt.SGen, 3) == 0 {
			for i := range form {
				form[i] = t.Choose(rt.SGen, 2) == 0
			}
			smp.Scenario += fmt.Sprintf(" - forms mixed on one pair (packed-bit form per batch: %v)", form)
		}
		var delta ot.Label
		body = func() {
			l := mk()
			rt.GoParty("S", "sender", func() {
				base := newBase(rS, realBase)
				if rotBase {
					base = ot.NewROT(ot.NewCO(rS), rS, false, false)
				}
				if err := base.InitReceiver(l.s); err != nil {
					fail("sender-error", "base InitReceiver: "+err.Error())
					return
				}
				s, err := ot.NewIKNPSender(base, l.s, rS, nil)
				if err != nil {
					fail("sender-error", "NewIKNPSender: "+err.Error())
					return
				}
				delta = s.Delta
				for i, n := range batches {
					if form[i] {
						err = s.SendBits(n, sentBits[i])
					} else {
						sent[i], err = s.Send(n, mal)
					}
					if err != nil {
						fail("sender-error", fmt.Sprintf("batch %d (n=%d): %v", i, n, err))
						return
					}
				}
				sDone = true
				l.closeS()
			})
			rt.GoParty("R", "receiver", func() {
				base := newBase(rR, realBase)
				if rotBase {
					base = ot.NewROT(ot.NewCO(rR), rR, false, false)
				}
				if err := base.InitSender(l.r); err != nil {
					fail("receiver-error", "base InitSender: "+err.Error())
					return
				}
				r, err := ot.NewIKNPReceiver(base, l.r, rR)
				if err != nil {
					fail("receiver-error", "NewIKNPReceiver: "+err.Error())
					return
				}
				for i, n := range batches {
					if form[i] {
						packed := make([]uint64, (n+63)/64)
						for j, c := range choices[i] {
							if c {
								packed[j/64] |= 1 << (j % 64)
							}
						}
						err = r.ReceiveBits(packed, recvBits[i], n)
					} else {
						err = r.Receive(choices[i], recv[i], mal)
					}
					if err != nil {
						fail("receiver-error", fmt.Sprintf("batch %d (n=%d): %v", i, n, err))
						return
					}
				}
				rDone = true
				l.closeR()
			})
		}
		defer func() {
			if failure != nil || !sDone || !rDone {
				return
			}
			for i, n := range batches {
				if form[i] {
					d := uint64(delta.Bit(0))
					for j := 0; j < n; j++ {
						sb := sentBits[i][j/64] >> (j % 64) & 1
						rb := recvBits[i][j/64] >> (j % 64) & 1
						var c uint64
						if choices[i][j] {
							c = 1
						}
						if rb != sb^(c&d) {
							failure = &core.Failure{Clause: "iknp-bit-correlation", Detail: fmt.Sprintf("packed-bit form, batch %d of %v, position %d/%d: received %d, sent %d, choice %d, Delta bit %d (expected received = sent xor choice*Delta)", i, batches, j, n, rb, sb, c, d)}
							res.Fail = failure
							return
						}
					}
					for j := n; j < len(recvBits[i])*64 && !dirtyBits; j++ {
						if recvBits[i][j/64]>>(j%64)&1 == 1 || sentBits[i][j/64]>>(j%64)&1 == 1 {
							failure = &core.Failure{Clause: "iknp-bit-overrun", Detail: fmt.Sprintf("packed-bit form, batch %d n=%d: bit %d beyond the count is set in a result buffer", i, n, j)}
							res.Fail = failure
							return
						}
					}
				} else {
					if len(sent[i]) != n {
						failure = &core.Failure{Clause: "iknp-label-count", Detail: fmt.Sprintf("Send(%d) returned %d labels", n, len(sent[i]))}
						res.Fail = failure
						return
					}
					for j := 0; j < n; j++ {
						want := sent[i][j]
						if choices[i][j] {
							want.Xor(delta)
						}
						if !recv[i][j].Equal(want) {
							failure = &core.Failure{Clause: "iknp-label-correlation", Detail: fmt.Sprintf("label form (malicious=%v), batch %d of %v, position %d/%d choice=%v: received %v, expected sent xor choice*Delta = %v", mal, i, batches, j, n, choices[i][j], recv[i][j], want)}
							res.Fail = failure
							return
						}
					}
				}
			}
		}()

	case scHelpers:
		n := drawSize(t, 40)
		smp.Scenario, smp.Batches = "Chou-Orlandi pure helpers", []int{n}
		curve := []elliptic.Curve{elliptic.P256(), elliptic.P256(), elliptic.P224(), elliptic.P384()}[t.Choose(rt.SGen, 4)]
		choices := drawChoices(t, n, rH)
		wires := make([]ot.Wire, n)
		for j := range wires {
			wires[j].L0, _ = ot.NewLabel(rH)
			wires[j].L1, _ = ot.NewLabel(rH)
		}
		var got []ot.Label
		reuseChoices := t.Choose(rt.SGen, 2) == 0
		if reuseChoices {
			smp.Scenario += " (the receiver reuses its choice buffer once the points are built)"
		}
		body = func() {
			// message exchange: setup -> (Ax, Ay) -> points -> ciphertexts
			type m1 struct{ ax, ay *big.Int }
			c1 := rt.NewChan[m1](1)
			c2 := rt.NewChan[[]ot.ECPoint](1)
			c3 := rt.NewChan[[]ot.LabelCiphertext](1)
			rt.GoParty("S", "sender", func() {
				setup, err := ot.GenerateCOSenderSetup(rS, curve)
				if err != nil {
					fail("sender-error", err.Error())
					c1.Close()
					return
				}
				c1.Send(m1{setup.Ax, setup.Ay})
				pts, ok := c2.Recv2()
				if !ok {
					return
				}
				ct, err := ot.EncryptCOCiphertexts(curve, setup, pts, wires)
				if err != nil {
					fail("sender-error", err.Error())
					c3.Close()
					return
				}
				c3.Send(ct)
				sDone = true
			})
			rt.GoParty("R", "receiver", func() {
				a, ok := c1.Recv2()
				if !ok {
					return
				}
				// half of the cases: the receiver's choice buffer is its own and it uses it for the next
				// batch as soon as the points are built
				buf := choices
				if reuseChoices {
					buf = append([]bool(nil), choices...)
				}
				bundle, pts, err := ot.BuildCOChoices(rR, curve, a.ax, a.ay, buf)
				if reuseChoices {
					for i := range buf {
						buf[i] = !buf[i]
					}
				}
				if err != nil {
					fail("receiver-error", err.Error())
					c2.Close()
					return
				}
				c2.Send(pts)
				ct, ok := c3.Recv2()
				if !ok {
					return
				}
				got, err = ot.DecryptCOCiphertexts(curve, bundle, ct)
				if err != nil {
					fail("receiver-error", err.Error())
					return
				}
				rDone = true
			})
		}
		defer func() {
			if failure != nil || !sDone || !rDone {
				return
			}
			if len(got) != n {
				failure = &core.Failure{Clause: "wrong-label", Detail: fmt.Sprintf("helpers returned %d labels for %d choices", len(got), n)}
				res.Fail = failure
				return
			}
			for j := range got {
				want := wires[j].L0
				if choices[j] {
					want = wires[j].L1
				}
				if !got[j].Equal(want) {
					failure = &core.Failure{Clause: "wrong-label", Detail: fmt.Sprintf("CO helpers on %s, position %d/%d choice=%v: receiver has %v, chosen label is %v", curve.Params().Name, j, n, choices[j], got[j], want)}
					res.Fail = failure
					return
				}
			}
		}()

	case scPrimitives:
		// The transfer objects underneath ot.RSA and ot.CO are public API of their own: one
		// sender object (one RSA key / one curve) serves several 1-out-of-2 transfers whose
		// messages the caller carries. The two tasks exchange them over channels; each side works
		// through the transfers in its own tape-chosen order, so the steps of different transfers
		// on one sender object interleave.
		useRSA := t.Choose(rt.SGen, 3) == 0
		n := 1 + t.Choose(rt.SGen, 6)
		if useRSA {
			n = 1 + t.Choose(rt.SGen, 3)
		}
		rsaBits := []int{1024, 1025, 1031, 1027, 1024, 1279}[t.Choose(rt.SGen, 6)]
		smp.Scenario, smp.Batches = "transfer primitives (Chou-Orlandi COSender/COReceiver)", []int{n}
		smp.Transport = "messages carried by the caller"
		if useRSA {
			smp.Scenario = "transfer primitives (RSA Sender/Receiver)"
			smp.Base = fmt.Sprintf("RSA key size %d bits", rsaBits)
		}
		m0s, m1s := make([][]byte, n), make([][]byte, n)
		bitsOf := drawChoices(t, n, rH)
		for i := 0; i < n; i++ {
			sz := 16
			if t.Choose(rt.SGen, 3) == 0 {
				sz = 1 + t.Choose(rt.SGen, 32)
			}
			m0s[i], m1s[i] = make([]byte, sz), make([]byte, sz)
			rH.Read(m0s[i])
			rH.Read(m1s[i])
			switch t.Choose(rt.SGen, 6) {
			case 0: // leading zero bytes
				m0s[i][0], m1s[i][0] = 0, 0
			case 1: // all zero / all ones
				for j := range m0s[i] {
					m0s[i][j], m1s[i][j] = 0, 0xff
				}
			}
		}
		perm := func() []int {
			p := make([]int, n)
			for i := range p {
				p[i] = i
			}
			for i := n - 1; i > 0; i-- {
				j := t.Choose(rt.SGen, i+1)
				p[i], p[j] = p[j], p[i]
			}
			return p
		}
		sOrder1, sOrder2, rOrder1, rOrder2 := perm(), perm(), perm(), perm()
		gotM := make([][]byte, n)
		gotBit := make([]uint, n)
		type msg struct {
			idx  int
			a, b []byte
		}
		body = func() {
			c1 := rt.NewChan[msg](n) // sender -> receiver, first message of a transfer
			c2 := rt.NewChan[msg](n) // receiver -> sender
			c3 := rt.NewChan[msg](n) // sender -> receiver, last message
			pubC := rt.NewChan[any](1)
			collect := func(c *rt.Chan[msg]) ([]msg, bool) {
				out := make([]msg, n)
				for k := 0; k < n; k++ {
					m, ok := c.Recv2()
					if !ok {
						return nil, false
					}
					out[m.idx] = m
				}
				return out, true
			}
			rt.GoParty("S", "sender", func() {
				defer func() { c1.Close(); c3.Close() }()
				if useRSA {
					s, err := ot.NewSender(rS, rsaBits)
					if err != nil {
						fail("sender-error", "NewSender: "+err.Error())
						pubC.Close()
						return
					}
					pubC.Send(s.PublicKey())
					x := make([]*ot.SenderXfer, n)
					for _, i := range sOrder1 {
						x[i], err = s.NewTransfer(m0s[i], m1s[i])
						if err != nil {
							fail("sender-error", "NewTransfer: "+err.Error())
							return
						}
						x0, x1 := x[i].RandomMessages()
						c1.Send(msg{i, x0, x1})
					}
					vs, ok := collect(c2)
					if !ok {
						return
					}
					for _, i := range sOrder2 {
						x[i].ReceiveV(vs[i].a)
						a, b, err := x[i].Messages()
						if err != nil {
							fail("sender-error", "Messages: "+err.Error())
							return
						}
						c3.Send(msg{i, a, b})
					}
				} else {
					s := ot.NewCOSender(rS)
					pubC.Send(s.Curve())
					x := make([]*ot.COSenderXfer, n)
					for _, i := range sOrder1 {
						var err error
						x[i], err = s.NewTransfer(m0s[i], m1s[i])
						if err != nil {
							fail("sender-error", "NewTransfer: "+err.Error())
							return
						}
						ax, ay := x[i].A()
						c1.Send(msg{i, ax, ay})
					}
					bs, ok := collect(c2)
					if !ok {
						return
					}
					for _, i := range sOrder2 {
						x[i].ReceiveB(bs[i].a, bs[i].b)
						e0, e1 := x[i].E()
						c3.Send(msg{i, e0, e1})
					}
				}
				sDone = true
			})
			rt.GoParty("R", "receiver", func() {
				defer c2.Close()
				pv, ok := pubC.Recv2()
				if !ok {
					return
				}
				bit := func(i int) uint {
					if bitsOf[i] {
						return 1
					}
					return 0
				}
				first, ok := collect(c1)
				if !ok {
					return
				}
				if useRSA {
					r, err := ot.NewReceiver(rR, pv.(*rsa.PublicKey))
					if err != nil {
						fail("receiver-error", "NewReceiver: "+err.Error())
						return
					}
					x := make([]*ot.ReceiverXfer, n)
					for _, i := range rOrder1 {
						x[i], err = r.NewTransfer(bit(i))
						if err == nil {
							err = x[i].ReceiveRandomMessages(first[i].a, first[i].b)
						}
						if err != nil {
							fail("receiver-error", "transfer: "+err.Error())
							return
						}
						c2.Send(msg{i, x[i].V(), nil})
					}
					last, ok := collect(c3)
					if !ok {
						return
					}
					for _, i := range rOrder2 {
						if err := x[i].ReceiveMessages(last[i].a, last[i].b, nil); err != nil {
							fail("receiver-error", fmt.Sprintf("ReceiveMessages (transfer %d of %d, %d-byte messages, bit %d): %v", i, n, len(m0s[i]), bit(i), err))
							return
						}
						gotM[i], gotBit[i] = x[i].Message()
					}
				} else {
					r := ot.NewCOReceiver(rR, pv.(elliptic.Curve))
					x := make([]*ot.COReceiverXfer, n)
					for _, i := range rOrder1 {
						var err error
						x[i], err = r.NewTransfer(bit(i))
						if err != nil {
							fail("receiver-error", "NewTransfer: "+err.Error())
							return
						}
						x[i].ReceiveA(first[i].a, first[i].b)
						bx, by := x[i].B()
						c2.Send(msg{i, bx, by})
					}
					last, ok := collect(c3)
					if !ok {
						return
					}
					for _, i := range rOrder2 {
						gotM[i], gotBit[i] = x[i].ReceiveE(last[i].a, last[i].b), bit(i)
					}
				}
				rDone = true
			})
		}
		defer func() {
			if failure != nil || !sDone || !rDone {
				return
			}
			for i := 0; i < n; i++ {
				want := m0s[i]
				if bitsOf[i] {
					want = m1s[i]
				}
				if !bytes.Equal(gotM[i], want) || (gotBit[i] == 1) != bitsOf[i] {
					failure = &core.Failure{Clause: "wrong-label", Detail: fmt.Sprintf("%s, transfer %d of %d (sender order %v/%v, receiver order %v/%v), choice=%v: receiver has %x (bit %d), the sender's chosen message is %x", smp.Scenario, i, n, sOrder1, sOrder2, rOrder1, rOrder2, bitsOf[i], gotM[i], gotBit[i], want)}
					res.Fail = failure
					return
				}
			}
		}()
	}
	res.Sample = smp
	res.Class = digits.ReplaceAllString(smp.Scenario, "N") + " " + smp.Kind

	rr := rt.Run(rt.Config{Trace: trace, NoProgress: core.NoProgressDefault}, t, body)
	core.Finish(res, rr)
	res.Nontrivial = rr.Switches > 2
	res.Reach["scenario."+digits.ReplaceAllString(smp.Scenario, "N")]++
	if smp.Kind != "" {
		res.Reach["kind."+smp.Kind]++
	}
	for _, n := range smp.Batches {
		if n%8 != 0 {
			res.Reach["batch.n%8!=0"]++
		}
		if n%64 != 0 && n > 64 {
			res.Reach["batch.n%64!=0,n>64"]++
		}
		if n > 512 {
			res.Reach["batch.multi-chunk"]++
		}
	}
	if len(smp.Batches) > 1 {
		res.Reach["batch.repeated-on-one-instance"]++
	}
	if res.Inconclusive != "" {
		return res
	}
	if len(rr.Crashed) > 0 {
		res.Fail = &core.Failure{Clause: "panic", Detail: core.CrashDetail(rr)}
		return res
	}
	if failure != nil {
		res.Fail = failure
		return res
	}
	if !sDone || !rDone {
		res.Fail = &core.Failure{Clause: "did-not-terminate", Detail: fmt.Sprintf("%v: sender done=%v receiver done=%v; unfinished tasks: %v", rr.Outcome, sDone, rDone, rr.Blocked)}
		return res
	}
	return res
}
