// Package runner is the worker-side driver: run index -> tape -> world ->
// verdict, aggregation of measurements, in-process shrinking and replay.
package runner

import (
	"encoding/json"
	"fmt"
	"hash/fnv"
	"os"
	"sort"
	"time"

	"verifsim/sim/rt"
	"verifsim/worlds/core"
)

// FailRec is a recorded failure: everything needed to re-execute it.
type FailRec struct {
	Property string              `json:"property"`
	Tier     string              `json:"tier"`
	Variant  string              `json:"variant,omitempty"`
	Seed     uint64              `json:"seed"`      // VERIF_SEED of the search
	Index    int                 `json:"run_index"` // run index within the search
	RunSeed  uint64              `json:"run_seed"`
	Tape     map[string][]uint32 `json:"tape"`
	Clause   string              `json:"clause"`
	Key      string              `json:"key,omitempty"`
	Detail   string              `json:"detail"`
	Hash     string              `json:"event_log_hash"`
	Sample   any                 `json:"case,omitempty"`
	Trace    []string            `json:"trace,omitempty"`
	Shrunk   *ShrinkInfo         `json:"shrink,omitempty"`
	// ProcStart/ProcStep: the worker process that found the failure had executed
	// run indices ProcStart, ProcStart+ProcStep, ... before Index.
	ProcStart int `json:"found_in_process_started_at_run"`
	ProcStep  int `json:"found_in_process_run_step"`
	// ProcessHistory, if not empty, lists the run indices (same seed, search
	// mode) that must be executed in the same process before the tape for the
	// failure to appear: the code under test keeps state across runs.
	ProcessHistory []int `json:"process_history,omitempty"`
}

// ShrinkInfo describes the minimisation.
type ShrinkInfo struct {
	Runs       int `json:"runs"`
	FromValues int `json:"from_nonzero_values"`
	ToValues   int `json:"to_nonzero_values"`
	FromLen    int `json:"from_len"`
	ToLen      int `json:"to_len"`
}

// Summary is what one worker reports.
type Summary struct {
	Runs         int
	Discards     int
	Inconclusive map[string]int
	Fail         *FailRec
	Known        map[string]int
	Hashes       []string // 64-bit prefixes of event-log hashes of non-trivial runs
	Reach        map[string]int
	Faults       map[string]int
	Classes      map[string]int
	Outcomes     map[string]int
	Steps        int64
	Switches     int64
	SimTimeNs    int64
	MaxTasks     int
	Samples      []any
	WallS        float64
	NextIdx      int // first run index not covered by this summary (resume point)
}

// RunSeed derives the seed of run idx.
func RunSeed(seed uint64, prop string, idx int) uint64 {
	h := fnv.New64a()
	h.Write([]byte(prop))
	return rt.Mix(seed, h.Sum64(), uint64(idx))
}

// KnownSet holds the keys of known findings of a property.
type KnownSet map[string]bool

// Search executes run indices worker, worker+workers, ... until the budget
// or maxRuns is exhausted or a failure that is not a known finding occurs.
func Search(prop, tier string, seed uint64, worker, workers int, budget time.Duration, maxRuns int, known KnownSet) *Summary {
	return SearchFrom(prop, tier, seed, worker, workers, budget, maxRuns, known, 0, "", nil)
}

// SearchFrom is Search starting at run index start (which must be congruent
// to worker modulo workers). If progress is not empty, the index about to be
// executed is written there before every run and flush is called with the
// summary so far now and then, so that a worker killed by the address-space
// limit (corruption trials can make the code under test allocate gigabytes)
// can be resumed after the fatal index.
func SearchFrom(prop, tier string, seed uint64, worker, workers int, budget time.Duration, maxRuns int, known KnownSet, startIdx int, progress string, flush func(*Summary)) *Summary {
	f := core.Lookup(prop)
	if f == nil {
		fmt.Fprintf(os.Stderr, "no world for %s\n", prop)
		os.Exit(2)
	}
	w := f(tier)
	s := &Summary{Inconclusive: map[string]int{}, Known: map[string]int{}, Reach: map[string]int{}, Faults: map[string]int{}, Classes: map[string]int{}, Outcomes: map[string]int{}}
	start := time.Now()
	seen := map[string]bool{}
	if startIdx < worker {
		startIdx = worker
	}
	lastFlush := time.Now()
	for idx := startIdx; ; idx += workers {
		if maxRuns > 0 && idx >= maxRuns {
			break
		}
		if time.Since(start) > budget {
			break
		}
		if progress != "" {
			os.WriteFile(progress, []byte(fmt.Sprint(idx)), 0o644)
		}
		if flush != nil {
			if time.Since(lastFlush) > 500*time.Millisecond {
				s.NextIdx = idx
				s.Hashes = s.Hashes[:0]
				for h := range seen {
					s.Hashes = append(s.Hashes, h)
				}
				s.WallS = time.Since(start).Seconds()
				flush(s)
				lastFlush = time.Now()
			}
		}
		rs := RunSeed(seed, prop, idx)
		tape := rt.NewTape(rs)
		res := w.Run(tape, false)
		core.FoldEnvFaults(res)
		s.Runs++
		if res.Discard {
			s.Discards++
			for k, v := range res.Reach {
				s.Reach[k] += v
			}
			continue
		}
		if res.Inconclusive != "" {
			s.Inconclusive[res.Inconclusive]++
			continue
		}
		accumulate(s, res, seen)
		if len(s.Samples) < 3 && res.Sample != nil && (res.Nontrivial || s.Runs > 20) {
			s.Samples = append(s.Samples, res.Sample)
		}
		if res.Fail != nil {
			key := res.Fail.Key
			if key == "" {
				key = res.Fail.Clause
			}
			if known[key] {
				s.Known[key]++
				continue
			}
			s.Fail = &FailRec{Property: prop, Tier: tier, Seed: seed, Index: idx, RunSeed: rs, Tape: tape.Used(), Clause: res.Fail.Clause, Key: res.Fail.Key, Detail: res.Fail.Detail, Hash: res.Hash, Sample: res.Sample, ProcStart: startIdx, ProcStep: workers}
			break
		}
	}
	s.Hashes = s.Hashes[:0]
	for h := range seen {
		s.Hashes = append(s.Hashes, h)
	}
	sort.Strings(s.Hashes)
	s.WallS = time.Since(start).Seconds()
	s.NextIdx = -1 // complete
	return s
}

func accumulate(s *Summary, res *core.Result, seen map[string]bool) {
	for k, v := range res.Reach {
		s.Reach[k] += v
	}
	for k, v := range res.Faults {
		s.Faults[k] += v
	}
	if res.Class != "" {
		s.Classes[res.Class]++
	}
	s.Outcomes[res.Outcome]++
	s.Steps += int64(res.Steps)
	s.Switches += int64(res.Switches)
	s.SimTimeNs += int64(res.SimTime)
	if res.Tasks > s.MaxTasks {
		s.MaxTasks = res.Tasks
	}
	if res.Nontrivial && len(res.Hash) >= 16 {
		seen[res.Hash[:16]] = true
	}
}

// Replay executes one recorded tape and returns the result.
func Replay(rec *FailRec, trace bool) *core.Result {
	f := core.Lookup(rec.Property)
	if f == nil {
		fmt.Fprintf(os.Stderr, "no world for %s\n", rec.Property)
		os.Exit(2)
	}
	w := f(rec.Tier)
	for _, idx := range rec.ProcessHistory {
		w.Run(rt.NewTape(RunSeed(rec.Seed, rec.Property, idx)), false)
	}
	return w.Run(rt.NewReplayTape(rec.RunSeed, rec.Tape), trace)
}

// Hashes runs indices [from, to) and returns the event-log hash and verdict
// of each (determinism self-test).
func Hashes(prop, tier string, seed uint64, from, to int, emit func(string)) {
	w := core.Lookup(prop)(tier)
	for idx := from; idx < to; idx++ {
		res := w.Run(rt.NewTape(RunSeed(seed, prop, idx)), false)
		v := "ok"
		if res.Fail != nil {
			v = "FAIL:" + res.Fail.Clause
		}
		if res.Discard {
			v = "discard"
		}
		emit(fmt.Sprintf("%d %s %s %s", idx, res.Hash, res.Outcome, v))
	}
}

func clone(m map[string][]uint32) map[string][]uint32 {
	out := map[string][]uint32{}
	for k, v := range m {
		out[k] = append([]uint32(nil), v...)
	}
	return out
}

func nonzero(m map[string][]uint32) (nz, n int) {
	for _, v := range m {
		n += len(v)
		for _, x := range v {
			if x != 0 {
				nz++
			}
		}
	}
	return
}

// Shrink minimises a failing tape while the same oracle clause keeps failing.
func Shrink(rec *FailRec, budget time.Duration, known KnownSet) *FailRec {
	f := core.Lookup(rec.Property)
	w := f(rec.Tier)
	start := time.Now()
	runs := 0
	cur := clone(rec.Tape)
	var curRes *core.Result
	try := func(cand map[string][]uint32) bool {
		if time.Since(start) > budget {
			return false
		}
		runs++
		t := rt.NewReplayTape(rec.RunSeed, cand)
		res := w.Run(t, false)
		if res.Fail == nil || res.Discard || res.Inconclusive != "" || res.Fail.Clause != rec.Clause {
			return false
		}
		key := res.Fail.Key
		if key == "" {
			key = res.Fail.Clause
		}
		if known[key] {
			return false
		}
		used := t.Used()
		// keep only what was consumed
		cur = used
		curRes = res
		return true
	}
	if !try(cur) {
		// not reproducible in-process: return as is; the caller's fresh-process
		// replay decides.
		return rec
	}
	fromNZ, fromLen := nonzero(cur)
	order := []string{rt.SFault, rt.SSched, rt.SNet, rt.SPool, rt.SMap, rt.SGen}
	improved := true
	for pass := 0; improved && pass < 6 && time.Since(start) < budget; pass++ {
		improved = false
		for _, name := range order {
			if len(cur[name]) == 0 {
				continue
			}
			// 1. truncate (missing entries read as zero)
			for cut := len(cur[name]) / 2; cut >= 1 && len(cur[name]) > 0; cut /= 2 {
				for len(cur[name]) >= cut {
					cand := clone(cur)
					cand[name] = cand[name][:len(cand[name])-cut]
					if len(cur[name]) == 0 || !try(cand) {
						break
					}
					improved = true
				}
			}
			// 2. zero blocks
			for bs := 256; bs >= 1; bs /= 4 {
				for i := 0; i < len(cur[name]); i += bs {
					end := min(i+bs, len(cur[name]))
					all0 := true
					for _, x := range cur[name][i:end] {
						if x != 0 {
							all0 = false
							break
						}
					}
					if all0 {
						continue
					}
					cand := clone(cur)
					for j := i; j < end && j < len(cand[name]); j++ {
						cand[name][j] = 0
					}
					if try(cand) {
						improved = true
					}
				}
			}
			// 3. delete blocks (shifts the rest)
			if name != rt.SGen || len(cur[name]) < 400 {
				for bs := 64; bs >= 1; bs /= 4 {
					for i := 0; i+bs <= len(cur[name]); {
						cand := clone(cur)
						cand[name] = append(cand[name][:i:i], cand[name][i+bs:]...)
						if try(cand) {
							improved = true
						} else {
							i += bs
						}
					}
				}
			}
			// 4. lower single values
			for i := 0; i < len(cur[name]); i++ {
				v := cur[name][i]
				for _, nv := range []uint32{v / 2, v - 1} {
					if v == 0 || nv >= v {
						continue
					}
					cand := clone(cur)
					if i >= len(cand[name]) {
						break
					}
					cand[name][i] = nv
					if try(cand) {
						improved = true
						v = cur[name][min(i, len(cur[name])-1)]
						break
					}
				}
			}
		}
	}
	toNZ, toLen := nonzero(cur)
	out := *rec
	out.Tape = cur
	out.Detail = curRes.Fail.Detail
	out.Key = curRes.Fail.Key
	out.Hash = curRes.Hash
	out.Sample = curRes.Sample
	out.Shrunk = &ShrinkInfo{Runs: runs, FromValues: fromNZ, ToValues: toNZ, FromLen: fromLen, ToLen: toLen}
	return &out
}

// WriteJSON writes v to path.
func WriteJSON(path string, v any) error {
	b, err := json.MarshalIndent(v, "", " ")
	if err != nil {
		return err
	}
	return os.WriteFile(path, b, 0o644)
}

// ReadFail reads a failure record.
func ReadFail(path string) (*FailRec, error) {
	b, err := os.ReadFile(path)
	if err != nil {
		return nil, err
	}
	var r FailRec
	if err := json.Unmarshal(b, &r); err != nil {
		return nil, err
	}
	return &r, nil
}
