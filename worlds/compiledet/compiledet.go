// Package compiledet is the simulated world for C08 (build variant c08):
// the same MPCL source is compiled several times under tape-chosen map
// iteration orders, after different histories of earlier compilations, on
// fresh and reused compiler instances and in a separate process; all
// artefacts must be byte-identical.
package compiledet

import (
	"bytes"
	"crypto/sha256"
	"encoding/hex"
	"encoding/json"
	"fmt"
	"os"
	"os/exec"
	"path/filepath"
	"sort"
	"strings"
	"time"

	"github.com/markkurossi/mpc/circuit"
	"github.com/markkurossi/mpc/compiler"
	"github.com/markkurossi/mpc/compiler/utils"
	"github.com/markkurossi/mpc/env"

	"verifsim/gen"
	"verifsim/sim/rt"
	"verifsim/sim/simrand"
	"verifsim/worlds/core"
	"verifsim/worlds/stream"
)

func init() {
	core.Register("C08", func(tier string) core.World { return &world{tier: tier} })
	core.RegisterChild("C08", childMain)
}

type world struct{ tier string }

// PkgDir holds the harness-owned MPCL packages (vsim, vsim2).
var PkgDir = func() string {
	d := os.Getenv("VERIF_DIR")
	if d == "" {
		d = "/verif"
	}
	return filepath.Join(d, "mpclpkgs")
}()

// multi-import programs: several library packages with package-level
// variables and constants.
var crafted = []stream.Program{
	{Name: "crafted/bytes+binary+hex+bits", Src: `package main

import (
	"bytes"
	"encoding/binary"
	"encoding/hex"
	"math/bits"
)

func main(a, b [4]byte) (int, uint32, []byte) {
	c := bytes.Compare(a[:], b[:])
	x := binary.GetUint32(a[:])
	y := bits.RotateLeft32(x, 3)
	s := hex.EncodeToString(b[:])
	return c, y, []byte(s)
}
`},
	{Name: "crafted/sha1+hex+math", Src: `package main

import (
	"crypto/sha1"
	"encoding/hex"
	"math"
)

func main(a, b [8]byte) ([]byte, uint64) {
	var data [16]byte
	copy(data[:], a[:])
	copy(data[8:], b[:])
	sum := sha1.Sum(data[:])
	return []byte(hex.EncodeToString(sum[:4])), math.MaxUint(uint64(a[0]), uint64(b[0]))
}
`},
	{Name: "crafted/chacha20+binary+bits", Src: `package main

import (
	"crypto/chacha20"
	"encoding/binary"
	"math/bits"
)

func main(a, b uint32) (uint32, uint32) {
	x := bits.RotateLeft32(a, 7) ^ b
	var buf [4]byte
	d := binary.PutUint32LSB(buf[:], 0, x)
	return binary.GetUint32(d), chacha20.KeySize
}
`},
	{Name: "crafted/hex+bytes+strconv-consts", Src: `package main

import (
	"bytes"
	"encoding/hex"
	"math"
	"math/bits"
)

func main(a, b [2]byte) (bool, []byte, uint64, uint16) {
	s := hex.EncodeToString(a[:])
	t := hex.EncodeToString(b[:])
	return bytes.Equal([]byte(s), []byte(t)), []byte(s), math.AddUint64(uint64(a[0]), uint64(b[1])), bits.RotateLeft16(uint16(a[1]), 3)
}
`},
}

func init() {
	crafted = append(crafted,
		stream.Program{Name: "crafted/vsim name clash (package variable and main argument of the same name die at one instruction)", Src: `package main

import (
	"vsim"
)

func main(Acc, B uint64) (uint64, uint64) {
	return (Acc + vsim.Acc) ^ B, B + uint64(vsim.B)
}
`},
		stream.Program{Name: "crafted/vsim+vsim2+hex name clashes", Src: `package main

import (
	"encoding/hex"
	"vsim"
	"vsim2"
)

func main(Acc uint64, Off uint8) (uint64, uint8, []byte) {
	x := Acc + vsim2.Acc
	y := vsim.Mix(Acc) + vsim.Acc
	Tab := hex.EncodeToString(vsim.Tab)
	return x ^ y, vsim2.Add(Off) + Off + vsim2.Off, []byte(Tab)
}
`},
		stream.Program{Name: "crafted/intern state machine (interned symbols idle, running, stopped)", Src: `package main

func main(a, b uint8) uint8 {
	var state uint8 = uint8(intern(idle))
	if a > b {
		state = uint8(intern(running))
	}
	if a == b {
		state = uint8(intern(stopped))
	}
	return state
}
`},
		stream.Program{Name: "crafted/intern comparison (interned symbols greater, notGreater, equal)", Src: `package main

func main(a, b uint8) (uint8, uint8) {
	r := uint8(intern(notGreater))
	if a > b {
		r = uint8(intern(greater))
	}
	return r, uint8(intern(equal)) + uint8(intern(greater))
}
`},
		stream.Program{Name: "crafted/aes+hkdf+hex (three packages with package-level variables)", Src: `package main

import (
	"crypto/aes"
	"crypto/hkdf"
	"encoding/hex"
)

func main(a, b [2]byte) ([]byte, uint8) {
	s := hex.EncodeToString(b[:])
	return []byte(s), uint8(aes.BlockSize) + a[1]
}
`},
		stream.Program{Name: "crafted/aes+curve25519+hex+bytes (package-level variables)", Src: `package main

import (
	"bytes"
	"crypto/aes"
	"crypto/curve25519"
	"encoding/hex"
)

func main(a, b [2]byte) ([]byte, uint8, bool) {
	s := hex.EncodeToString(a[:])
	return []byte(s), uint8(aes.BlockSize) + b[0], bytes.Equal(a[:], b[:])
}
`},
		// two packages called util (vapp/util, vlib/util) reached through different importers: which
		// one a name means must not depend on the order in which the imports happen to be visited
		stream.Program{Name: "crafted/two packages with the same last path component (vapp/util directly, vlib/util through vhelp)", Src: `package main

import (
	"vapp/util"
	"vhelp"
)

func main(a, b uint8) (uint8, uint8) {
	return util.Mix(a), vhelp.Help(b)
}
`},
		stream.Program{Name: "crafted/two packages with the same last path component (through vhelp and vhelp2, hex and bytes beside them)", Src: `package main

import (
	"bytes"
	"encoding/hex"
	"vhelp"
	"vhelp2"
)

func main(a, b [2]byte) (uint8, uint8, bool, []byte) {
	s := hex.EncodeToString(a[:])
	return vhelp.Help(a[0]), vhelp2.Help(b[1]), bytes.Equal(a[:], b[:]), []byte(s)
}
`},
		// a package of two source files, each with a package-level variable
		stream.Program{Name: "crafted/a package of two source files (vmulti)", Src: `package main

import (
	"vmulti"
)

func main(a, b int32) (int32, int32) {
	return vmulti.FromA(a), vmulti.FromB(b) + vmulti.A
}
`},
		// multiplications in several width classes of the per-width algorithm selection (16..21 and
		// 37..41 bits have thresholds of their own): whatever one compilation resolves must not be
		// what the next one, on the same Params value, starts from
		stream.Program{Name: "crafted/multiplications of 16 and 40 bits", Src: `package main

func main(a, b uint64) (uint16, uint40) {
	return uint16(a) * uint16(b), uint40(a) * uint40(b)
}
`},
		stream.Program{Name: "crafted/multiplications of 32, 20 and 64 bits", Src: `package main

func main(a, b uint64) (uint32, uint20, uint64) {
	x := uint32(a) * uint32(b)
	return x, uint20(a) * uint20(b >> 3), a * b
}
`})
}

// importSetProgram draws a main program importing 1..5 packages that have
// package-level variables (library and harness-owned ones), in a tape-chosen
// source order: the number of imports is itself a boundary (none to sort, two,
// many).
func importSetProgram(t *rt.Tape) stream.Program {
	pool := []string{"encoding/hex", "crypto/aes", "crypto/curve25519", "crypto/hkdf", "vsim", "vsim2"}
	k := []int{1, 2, 2, 2, 3, 4, 5}[t.Choose(rt.SGen, 7)]
	var imps []string
	for len(imps) < k {
		i := t.Choose(rt.SGen, len(pool))
		imps = append(imps, pool[i])
		pool = append(pool[:i:i], pool[i+1:]...)
	}
	has := map[string]bool{}
	src := "package main\n\nimport (\n"
	for _, im := range imps {
		has[im] = true
		src += "\t\"" + im + "\"\n"
	}
	src += ")\n\nfunc main(a, b [2]byte) ([]byte, uint64, uint8) {\n"
	bytesExpr, u64, u8 := "a[:]", "uint64(a[0])", "b[1]"
	if has["encoding/hex"] {
		src += "\ts := hex.EncodeToString(b[:])\n"
		bytesExpr = "[]byte(s)"
	}
	if has["crypto/aes"] {
		u8 += " + uint8(aes.BlockSize)"
	}
	if has["vsim"] {
		u64 += " + vsim.Acc + vsim.Mix(uint64(b[0]))"
	}
	if has["vsim2"] {
		u64 += " + vsim2.Acc"
		u8 += " + vsim2.Add(a[1]) + vsim2.Off"
	}
	src += "\treturn " + bytesExpr + ", " + u64 + ", " + u8 + "\n}\n"
	return stream.Program{Name: fmt.Sprintf("crafted/import-set %v", imps), Src: src}
}

// failing are history programs whose compilation fails during code
// generation, after their imports have been parsed and initialised.
var failing = []string{`package main

import (
	"crypto/aes"
	"encoding/hex"
)

func main(a, b [2]byte) []byte {
	s := hex.EncodeToString(a[:])
	return undefinedFunction(s, aes.BlockSize)
}
`, `package main

import (
	"bytes"
	"crypto/hkdf"
	"encoding/hex"
	"math/bits"
)

func main(a, b [2]byte) (bool, uint16) {
	s := hex.EncodeToString(b[:])
	var x uint8 = bits.RotateLeft16(uint16(a[0]), 3)
	return bytes.Equal([]byte(s), a[:]), x + noSuchVariable
}
`, `package main

import (
	"crypto/curve25519"
	"encoding/binary"
	"encoding/hex"
)

func main(a, b [4]byte) uint32 {
	x := binary.GetUint32(a[:])
	y := hex.EncodeToString(b[:])
	return x + y
}
`}

var corpus []stream.Program

func programs() []stream.Program {
	if corpus != nil {
		return corpus
	}
	corpus = append(corpus, crafted...)
	for _, pat := range []string{"testsuite/lang/*.mpcl", "testsuite/bytes/*.mpcl", "testsuite/math/bits/*.mpcl", "testsuite/crypto/sha1.mpcl",
		"apps/garbled/examples/millionaire.mpcl", "apps/garbled/examples/hamming.mpcl", "apps/garbled/examples/div.mpcl", "apps/garbled/examples/aesblock2.mpcl",
		"apps/garbled/examples/chacha20block.mpcl", "apps/garbled/examples/credit.mpcl", "apps/garbled/examples/rps.mpcl", "apps/garbled/examples/key-import.mpcl", "apps/garbled/examples/3party.mpcl"} {
		m, _ := filepath.Glob(filepath.Join(stream.RepoDir, pat))
		sort.Strings(m)
		for _, f := range m {
			b, err := os.ReadFile(f)
			if err != nil {
				continue
			}
			corpus = append(corpus, stream.Program{Name: strings.TrimPrefix(f, stream.RepoDir+"/"), Src: string(b)})
		}
	}
	return corpus
}

// Variant is the fixed parameter set of a comparison.
type Variant struct {
	Prune bool
	GMW   bool
	// Verbose: Params.Verbose and Params.Diagnostics (reports, never results)
	Verbose bool
	// Symbols: a pre-loaded intern() table (ids of sym0, sym1, ...), as LoadSymbolIDs gives
	Symbols []int `json:",omitempty"`
}

// Job is one compilation of the program under comparison.
type Job struct {
	Src     string
	Sizes   [][]int
	Variant Variant
	History []string // sources compiled before, on the same instance if Reuse
	// HistTune[i] != 0: history compilation i runs on its own Compiler with its
	// own Params carrying other tuning values (as a tuning or benchmarking tool
	// does in the same process): low byte = CircMultArrayTreshold, bit 8 = other
	// OptPruneGates, bit 9 = other target; "\x00self" as source = the program itself.
	HistTune   []int
	Reuse      bool   // one compiler.Compiler value for history and program
	SameParams bool   // one utils.Params value for history and program
	Twice      bool   // compile the program itself twice on the instance, keep the second
	SlowSSA    bool   // the SSA listing goes to a writer that blocks (concurrent cases)
	CPUs       int    // > 0: the job stands for a compilation on a host with that many CPUs
	Retain     bool   // the compiled circuit is marshalled again after another compilation on the instance
	MapSeed    uint64 // child processes: seed of the map-order stream
	// PkgOrder 1 or 2: the harness package vmulti (two source files) is found in a copy whose files
	// were created a.mpcl first or b.mpcl first, on a file system that lists a directory in the order
	// of creation (tmpfs) - two parties' checkouts of the same package
	PkgOrder int
}

// pkgRoot, if set, is searched for packages before PkgDir (see Job.PkgOrder).
var pkgRoot string

// pkgCopy returns a package root that holds a copy of vmulti whose files were created in the given
// order, or "" if there is no tmpfs to put it on. The copy is made once per machine (it is two
// small files under /dev/shm/verifsim-c08) and published with a rename, so that no process ever
// sees it half written.
func pkgCopy(order int) string {
	const base = "/dev/shm"
	if st, err := os.Stat(base); err != nil || !st.IsDir() {
		return ""
	}
	root := filepath.Join(base, "verifsim-c08", fmt.Sprintf("o%d", order))
	final := filepath.Join(root, "vmulti")
	if _, err := os.Stat(filepath.Join(final, "b.mpcl")); err == nil {
		return root
	}
	if err := os.MkdirAll(root, 0o755); err != nil {
		return ""
	}
	tmp, err := os.MkdirTemp(root, "tmp-")
	if err != nil {
		return ""
	}
	defer os.RemoveAll(tmp)
	names := []string{"a.mpcl", "b.mpcl"}
	if order == 2 {
		names = []string{"b.mpcl", "a.mpcl"}
	}
	for _, n := range names {
		b, err := os.ReadFile(filepath.Join(PkgDir, "vmulti", n))
		if err != nil {
			return ""
		}
		if err := os.WriteFile(filepath.Join(tmp, n), b, 0o644); err != nil {
			return ""
		}
	}
	if err := os.Rename(tmp, final); err != nil {
		if _, err2 := os.Stat(filepath.Join(final, "b.mpcl")); err2 != nil {
			return ""
		}
	}
	return root
}

// Artefacts are the outputs compared.
type Artefacts struct {
	Err     string
	Circ    string // sha256 of Circuit.Marshal
	Bristol string
	SSA     string
	IO      string
	SSAText string `json:",omitempty"`
	Gates   int
}

type nopCloser struct{ *bytes.Buffer }

func (nopCloser) Close() error { return nil }

// slowWriter is the SSA listing's destination in the concurrent cases: a pipe, socket or busy
// disk - every Write is a scheduling point, takes its time before it consumes the bytes, and
// one write in eight blocks for a millisecond of virtual time.
type slowWriter struct{ buf *bytes.Buffer }

func (w slowWriter) Write(p []byte) (int, error) {
	rt.Yield()
	if rt.Choose(rt.SFault, 8) == 0 {
		rt.Reach("ssa-writer.blocked")
		rt.Sleep(time.Millisecond)
	}
	n, err := w.buf.Write(p)
	rt.Yield()
	return n, err
}

func (slowWriter) Close() error { return nil }

func newParams(v Variant) *utils.Params {
	p := utils.NewParams()
	p.PkgPath = []string{PkgDir}
	if pkgRoot != "" {
		p.PkgPath = []string{pkgRoot, PkgDir}
	}
	p.Config = &env.Config{Rand: simrand.Stream("compile")}
	p.Warn.DisableAll()
	p.OptPruneGates = v.Prune
	p.Verbose, p.Diagnostics = v.Verbose, v.Verbose
	if v.GMW {
		p.Target = utils.TargetGMW
	}
	return p
}

func sum(b []byte) string {
	h := sha256.Sum256(b)
	return hex.EncodeToString(h[:])
}

func ioDesc(c *circuit.Circuit) string {
	var sb strings.Builder
	var rec func(io circuit.IO)
	rec = func(io circuit.IO) {
		for _, a := range io {
			fmt.Fprintf(&sb, "%q:%s/%d{", a.Name, a.Type.String(), a.Type.Bits)
			rec(a.Compound)
			sb.WriteString("}")
		}
	}
	rec(c.Inputs)
	sb.WriteString("->")
	rec(c.Outputs)
	return sb.String()
}

// retainSrc is compiled after the program under comparison in jobs with Retain.
const retainSrc = `package main

import (
	"encoding/hex"
)

func main(a, b [4]byte) []byte {
	s := hex.EncodeToString(a[:])
	t := hex.EncodeToString(b[:])
	return []byte(s + t)
}
`

// selfSrc as a history source stands for the job's own program.
const selfSrc = "\x00self"

// RunJob executes one job (inside a simulated run: map ranges draw from the tape).
func RunJob(j Job, keepSSA bool) (a Artefacts) {
	defer func() {
		if r := recover(); r != nil {
			a.Err = fmt.Sprintf("PANIC: %v", r)
		}
	}()
	if j.CPUs > 0 {
		rt.SetNumCPU(j.CPUs)
		defer rt.SetNumCPU(0)
	}
	if j.PkgOrder != 0 {
		if r := pkgCopy(j.PkgOrder); r != "" {
			pkgRoot = r
			defer func() { pkgRoot = "" }()
			rt.Reach("job.package-files-created-in-another-order")
		}
	}
	params := newParams(j.Variant)
	cc := compiler.New(params)
	// Reuse: history and program on one compiler.Compiler value. Otherwise a
	// fresh Compiler per compilation, with one shared or a fresh Params value.
	mk := func() (*utils.Params, *compiler.Compiler) {
		if j.Reuse {
			return params, cc
		}
		p := params
		if !j.SameParams {
			p = newParams(j.Variant)
		}
		return p, compiler.New(p)
	}
	for i, h := range j.History {
		_, c2 := mk()
		sizes := [][]int{{64}, {64}}
		if h == selfSrc {
			h, sizes = j.Src, j.Sizes
		}
		if i < len(j.HistTune) && j.HistTune[i] != 0 {
			tune := j.HistTune[i]
			v := j.Variant
			if tune&0x100 != 0 {
				v.Prune = !v.Prune
			}
			if tune&0x200 != 0 {
				v.GMW = !v.GMW
			}
			p := newParams(v)
			p.CircMultArrayTreshold = tune & 0xff
			c2 = compiler.New(p)
		}
		func() {
			// errors and panics of history compilations do not matter (a history
			// entry may use another target, for which the compiler may fail on a
			// program the case's own target accepts); what they leave behind does
			defer func() {
				if recover() != nil {
					rt.Reach("history.compilation-panicked")
				}
			}()
			c2.Compile(h, sizes)
		}()
	}
	var ssa bytes.Buffer
	run := func() (*circuit.Circuit, error) {
		ssa.Reset()
		p2, c2 := mk()
		if j.Reuse || j.SameParams {
			// Params.SymbolIDs (the table behind intern()) is documented to live in the
			// Params value: a Params shared with the history would not be "the same
			// parameters" any more. A Params of its own is left as NewParams made it.
			p2.SymbolIDs = map[string]int{}
		}
		if len(j.Variant.Symbols) > 0 {
			// a symbol table loaded from a file (garbled -sids): part of the parameters, the same
			// for every job; it may be sparse (somebody removed symbols by hand)
			p2.SymbolIDs = map[string]int{}
			for i, id := range j.Variant.Symbols {
				p2.SymbolIDs[fmt.Sprintf("sym%d", i)] = id
			}
		}
		p2.SSAOut = nopCloser{&ssa}
		if j.SlowSSA {
			p2.SSAOut = slowWriter{&ssa}
		}
		defer func() { p2.SSAOut = nil }()
		circ, _, err := c2.Compile(j.Src, j.Sizes)
		return circ, err
	}
	circ, err := run()
	if j.Twice && err == nil {
		circ, err = run()
	}
	if err != nil {
		a.Err = err.Error()
		return a
	}
	var mb, bb bytes.Buffer
	if err := circ.Marshal(&mb); err != nil {
		a.Err = "Marshal: " + err.Error()
		return a
	}
	circ.MarshalBristol(&bb)
	a.Circ, a.Bristol, a.SSA, a.IO, a.Gates = sum(mb.Bytes()), sum(bb.Bytes()), sum(ssa.Bytes()), ioDesc(circ), circ.NumGates
	if j.Retain {
		// the caller keeps the compiled circuit while the same Compiler compiles something else: the
		// circuit it holds must still be the circuit it was given
		func() {
			defer func() { recover() }()
			_, c3 := mk()
			c3.Compile(retainSrc, [][]int{{64}, {64}})
		}()
		var again bytes.Buffer
		if err := circ.Marshal(&again); err != nil || sum(again.Bytes()) != a.Circ || ioDesc(circ) != a.IO {
			a.Circ = "changed-after-return:" + sum(again.Bytes())
		}
		rt.Reach("job.circuit-kept-across-another-compilation")
		// ... and the circuit belongs to the caller: after it edited gates and signature in place,
		// the same Compiler compiles the same program to the same bytes as before
		if a.Err == "" && !strings.HasPrefix(a.Circ, "changed") {
			for i := range circ.Gates {
				circ.Gates[i].Input0, circ.Gates[i].Output = 0, 0
			}
			for _, io := range []circuit.IO{circ.Inputs, circ.Outputs} {
				for i := range io {
					io[i].Name += "~"
					io[i].Type.Bits += 5
					if io[i].Type.ElementType != nil {
						io[i].Type.ElementType.Bits += 3
					}
					for k := range io[i].Compound {
						io[i].Compound[k].Type.Bits++
					}
				}
			}
			if c4, err := run(); err == nil {
				var mb4 bytes.Buffer
				if err := c4.Marshal(&mb4); err != nil || sum(mb4.Bytes()) != a.Circ {
					a.Circ = "differs-after-the-caller-edited-the-first-result:" + sum(mb4.Bytes())
				}
			} else {
				a.Err = "compilation after the caller edited the first result: " + err.Error()
			}
		}
	}
	if keepSSA {
		a.SSAText = ssa.String()
	}
	return a
}

// childMain runs a job in a separate process (invoked through the worker's
// "child" subcommand).
func childMain(in []byte) []byte {
	var j Job
	if err := json.Unmarshal(in, &j); err != nil {
		return []byte(`{"Err":"bad job"}`)
	}
	var a Artefacts
	t := rt.NewTape(j.MapSeed)
	simrand.Reseed(j.MapSeed)
	rt.Run(rt.Config{}, t, func() { a = RunJob(j, true) })
	out, _ := json.Marshal(a)
	return out
}

func runInChild(j Job) (Artefacts, error) {
	exe, err := os.Executable()
	if err != nil {
		return Artefacts{}, err
	}
	in, _ := json.Marshal(j)
	cmd := exec.Command(exe, "child", "-prop", "C08")
	cmd.Stdin = bytes.NewReader(in)
	var out, errb bytes.Buffer
	cmd.Stdout = &out
	cmd.Stderr = &errb
	if err := cmd.Run(); err != nil {
		return Artefacts{}, fmt.Errorf("%v: %s", err, errb.String())
	}
	var a Artefacts
	if err := json.Unmarshal(out.Bytes(), &a); err != nil {
		return Artefacts{}, fmt.Errorf("bad child output %q", out.String())
	}
	return a, nil
}

type sample struct {
	Program string
	Source  string `json:",omitempty"`
	Variant Variant
	Jobs    []string
}

func firstDiffLine(a, b string) string {
	la, lb := strings.Split(a, "\n"), strings.Split(b, "\n")
	for i := 0; i < len(la) && i < len(lb); i++ {
		if la[i] != lb[i] {
			return fmt.Sprintf("line %d: %q vs %q", i+1, la[i], lb[i])
		}
	}
	return fmt.Sprintf("%d vs %d lines", len(la), len(lb))
}

func (w *world) Run(t *rt.Tape, trace bool) *core.Result {
	res := &core.Result{Reach: map[string]int{}}
	core.BeginRun(t)
	progs := programs()
	var p stream.Program
	sizes := [][]int{{64}, {64}}
	switch k := t.Choose(rt.SGen, 8); {
	case k < 3:
		if t.Choose(rt.SGen, 2) == 0 {
			p = importSetProgram(t)
		} else {
			p = crafted[t.Choose(rt.SGen, len(crafted))]
		}
	case k < 6:
		p = progs[t.Choose(rt.SGen, len(progs))]
	default:
		src, probe := gen.MPCL(t)
		p, sizes = stream.Program{Name: "generated", Src: src}, probe
	}
	v := Variant{Prune: t.Choose(rt.SGen, 2) == 1, GMW: t.Choose(rt.SGen, 4) == 0, Verbose: t.Choose(rt.SGen, 6) == 0}
	if strings.Contains(p.Src, "intern(") && t.Choose(rt.SGen, 2) == 0 {
		// a pre-loaded symbol table: dense, 1-based, or with holes and duplicates of a hand-edited file
		n := 1 + t.Choose(rt.SGen, 6)
		for i := 0; i < n; i++ {
			switch t.Choose(rt.SGen, 3) {
			case 0:
				v.Symbols = append(v.Symbols, i)
			case 1:
				v.Symbols = append(v.Symbols, i+1+t.Choose(rt.SGen, 3))
			default:
				v.Symbols = append(v.Symbols, t.Choose(rt.SGen, 2*n+2))
			}
		}
		res.Reach["params.pre-loaded-symbol-table"]++
	}
	nj := 2 + t.Choose(rt.SGen, 2)
	jobs := make([]Job, nj)
	smp := sample{Program: p.Name, Variant: v}
	if p.Name == "generated" {
		smp.Source = p.Src
	}
	inChild := make([]bool, nj)
	for i := range jobs {
		j := Job{Src: p.Src, Sizes: sizes, Variant: v}
		if i > 0 || t.Choose(rt.SGen, 2) == 0 {
			nh := t.Choose(rt.SGen, 4)
			for h := 0; h < nh; h++ {
				var hp stream.Program
				tune := 0
				if t.Choose(rt.SGen, 3) == 0 {
					// a compilation with other tuning parameters on its own instance
					tune = []int{8, 10, 16, 24, 40, 0}[t.Choose(rt.SGen, 6)] | t.Choose(rt.SGen, 4)<<8
					if tune == 0 {
						tune = 0x100
					}
				}
				j.HistTune = append(j.HistTune[:len(j.History)], tune)
				if tune != 0 && t.Choose(rt.SGen, 2) == 0 {
					j.History = append(j.History, selfSrc)
					continue
				}
				if t.Choose(rt.SGen, 4) == 0 {
					j.History = append(j.History, failing[t.Choose(rt.SGen, len(failing))])
					continue
				}
				if t.Choose(rt.SGen, 4) == 0 {
					// a generated program: arithmetic of arbitrary widths, structs, arrays, loops
					if src, _ := gen.MPCL(t); len(src) < 3000 {
						j.History = append(j.History, src)
						res.Reach["job.history-with-a-generated-program"]++
					}
					continue
				}
				if t.Choose(rt.SGen, 2) == 0 {
					hp = crafted[t.Choose(rt.SGen, len(crafted))]
				} else {
					hp = progs[t.Choose(rt.SGen, len(progs))]
				}
				if len(hp.Src) < 3000 && !strings.Contains(hp.Name, "aesblock") && !strings.Contains(hp.Name, "chacha20block") && !strings.Contains(hp.Name, "sha1.mpcl") {
					j.History = append(j.History, hp.Src)
				}
			}
			j.Reuse = t.Choose(rt.SGen, 2) == 1
			j.SameParams = t.Choose(rt.SGen, 2) == 1
			j.Twice = t.Choose(rt.SGen, 4) == 0
		}
		j.Retain = t.Choose(rt.SGen, 4) == 0
		if strings.Contains(p.Src, `"vmulti"`) {
			j.PkgOrder = 1 + t.Choose(rt.SGen, 2)
		}
		if t.Choose(rt.SGen, 2) == 0 {
			// "two parties that compile independently": another host, another CPU count
			j.CPUs = rt.CPUChoice(t)
		}
		if i == nj-1 && t.Choose(rt.SGen, 4) == 0 {
			inChild[i] = true
			j.MapSeed = uint64(t.Raw(rt.SGen, nil))<<20 | 1
		}
		jobs[i] = j
		tuned := 0
		for k := range j.History {
			if k < len(j.HistTune) && j.HistTune[k] != 0 {
				tuned++
			}
		}
		if tuned > 0 {
			res.Reach["job.history-with-other-tuning-parameters"]++
		}
		smp.Jobs = append(smp.Jobs, fmt.Sprintf("history=%d (with other tuning parameters: %d) reuse-compiler=%v same-params=%v twice=%v separate-process=%v cpus=%d", len(j.History), tuned, j.Reuse, j.SameParams, j.Twice, inChild[i], j.CPUs))
	}
	// One case in five: after job 0 ran alone, the other jobs run at the same time in the process
	// (a server compiling for several sessions, a build tool with a worker per file), each on
	// Compiler and Params values of its own, beside a compilation of another program; their SSA
	// listings go to writers that block. "Repeated compilations" includes overlapping ones.
	concurrent := false
	var noise Job
	if t.Choose(rt.SGen, 5) == 0 {
		concurrent = true
		for i := range jobs {
			inChild[i] = false
			if i > 0 {
				jobs[i].SlowSSA = true
				jobs[i].SameParams = false
				jobs[i].CPUs = 0 // one process, one machine
			}
		}
		np := crafted[t.Choose(rt.SGen, len(crafted))]
		noise = Job{Src: np.Src, Sizes: [][]int{{64}, {64}}, Variant: Variant{Prune: t.Choose(rt.SGen, 2) == 1}, SlowSSA: true}
		smp.Jobs = append(smp.Jobs, "jobs 1.. run concurrently with each other and with a compilation of "+np.Name)
		res.Reach["concurrent-compilations"]++
	}
	res.Sample = smp
	res.Class = "prog=" + strings.SplitN(p.Name, "/", 2)[0]

	arts := make([]Artefacts, nj)
	var childErr error
	rr := rt.Run(rt.Config{Trace: trace}, t, func() {
		rt.LogBytes('p', []byte(p.Src))
		if concurrent {
			arts[0] = RunJob(jobs[0], true)
			done := rt.NewChan[int](nj)
			for i := 1; i < nj; i++ {
				i := i
				rt.Go(fmt.Sprintf("job%d", i), func() {
					arts[i] = RunJob(jobs[i], true)
					done.Send(i)
				})
			}
			rt.Go("noise", func() {
				RunJob(noise, false)
				done.Send(0)
			})
			for i := 0; i < nj; i++ {
				done.Recv()
			}
			for i := range arts {
				rt.LogBytes('a', []byte(arts[i].Circ+arts[i].SSA))
			}
			return
		}
		for i, j := range jobs {
			if inChild[i] {
				arts[i], childErr = runInChild(j)
				if childErr != nil {
					return
				}
			} else {
				arts[i] = RunJob(j, true)
			}
			rt.LogBytes('a', []byte(arts[i].Circ+arts[i].SSA))
		}
	})
	core.Finish(res, rr)
	res.Nontrivial = rr.Reach["map.range.permuted"] > 0
	if childErr != nil {
		res.Inconclusive = "child process: " + childErr.Error()
		return res
	}
	if len(rr.Crashed) > 0 {
		res.Fail = &core.Failure{Clause: "panic", Detail: core.CrashDetail(rr)}
		return res
	}
	if arts[0].Err != "" {
		// the program does not compile: nothing to compare (all jobs must agree on that, though)
		for i := 1; i < nj; i++ {
			if arts[i].Err == "" {
				res.Fail = &core.Failure{Clause: "compiles-only-sometimes", Detail: fmt.Sprintf("job 0 (%s) failed with %q, job %d (%s) compiled", smp.Jobs[0], firstLine(arts[0].Err), i, smp.Jobs[i])}
				return res
			}
		}
		res.Discard = true
		res.Reach["discard: program does not compile"]++
		if strings.HasPrefix(p.Name, "crafted/") {
			res.Reach["discard: crafted: "+firstLine(arts[0].Err)]++
		}
		return res
	}
	for _, b := range inChild {
		if b {
			res.Reach["job.separate-process"]++
		}
	}
	for i, j := range jobs {
		if j.Reuse && len(j.History) > 0 {
			res.Reach["job.reused-compiler-with-history"]++
		}
		if j.Twice {
			res.Reach["job.same-program-twice-on-one-instance"]++
		}
		_ = i
	}
	for i := 1; i < nj; i++ {
		a, b := arts[0], arts[i]
		where := fmt.Sprintf("program %s, params %+v: job 0 (%s) vs job %d (%s)", p.Name, v, smp.Jobs[0], i, smp.Jobs[i])
		switch {
		case b.Err != "":
			res.Fail = &core.Failure{Clause: "compiles-only-sometimes", Detail: fmt.Sprintf("%s: job %d failed: %s", where, i, firstLine(b.Err))}
		case a.Circ != b.Circ:
			res.Fail = &core.Failure{Clause: "circuit-bytes-differ", Detail: fmt.Sprintf("%s: Circuit.Marshal sha256 %s (%d gates) vs %s (%d gates); SSA: %s", where, a.Circ[:16], a.Gates, b.Circ[:16], b.Gates, firstDiffLine(a.SSAText, b.SSAText))}
		case a.Bristol != b.Bristol:
			res.Fail = &core.Failure{Clause: "bristol-bytes-differ", Detail: where}
		case a.IO != b.IO:
			res.Fail = &core.Failure{Clause: "io-description-differs", Detail: fmt.Sprintf("%s: %s vs %s", where, a.IO, b.IO)}
		case a.SSA != b.SSA:
			res.Fail = &core.Failure{Clause: "ssa-listing-differs", Detail: fmt.Sprintf("%s: the circuits are byte-identical but the SSA listings differ at %s", where, firstDiffLine(a.SSAText, b.SSAText))}
		}
		if res.Fail != nil {
			return res
		}
	}
	return res
}

func firstLine(s string) string {
	if i := strings.IndexByte(s, '\n'); i >= 0 {
		return s[:i]
	}
	return s
}
