package twopc

import (
	"crypto/sha256"
	"encoding/hex"
	"fmt"

	"verifsim/gen"
	"verifsim/sim/rt"
	"verifsim/sim/simnet"
	"verifsim/sim/simrand"
	"verifsim/worlds/core"
)

// Window enumerates consecutive byte offsets of one direction with one mask.
type Window struct {
	Dir, Start, Len, Trials int
	Mask                    byte
}

// NewWindow draws a window in a third of the cases (nil otherwise).
func NewWindow(t *rt.Tape, lenGE, lenEG int) *Window {
	if t.Choose(rt.SFault, 3) != 0 {
		return nil
	}
	w := &Window{Dir: t.Choose(rt.SFault, 2)}
	w.Len = lenGE
	if w.Dir == 1 {
		w.Len = lenEG
	}
	if w.Len == 0 {
		return nil
	}
	switch t.Choose(rt.SFault, 3) {
	case 0:
		w.Start = 0
	case 1:
		w.Start = max(0, w.Len-48)
	default:
		w.Start = t.Choose(rt.SFault, w.Len)
	}
	w.Mask = []byte{0x01, 0x80, 0xff, 0x10}[t.Choose(rt.SFault, 4)]
	w.Trials = 16 + t.Choose(rt.SFault, 33)
	return w
}

// Fault returns the k-th fault of the window.
func (w *Window) Fault(k int) (ge, eg []simnet.Fault, desc []string) {
	off := (w.Start + k) % w.Len
	f := simnet.Fault{Kind: simnet.FaultFlip, Off: uint64(off), Mask: w.Mask}
	desc = []string{fmt.Sprintf("%s off=%d/%d xor %#02x (window)", []string{"G->E", "E->G"}[w.Dir], off, w.Len, w.Mask)}
	if w.Dir == 0 {
		return []simnet.Fault{f}, nil, desc
	}
	return nil, []simnet.Fault{f}, desc
}

// C16 is the whole-circuit part of the C16 world.
type C16 struct{ Tier string }

// DrawFaults draws a corruption plan for one trial. lenGE/lenEG are the
// clean transcript lengths per direction.
func DrawFaults(t *rt.Tape, lenGE, lenEG int) (ge, eg []simnet.Fault, desc []string) {
	n := 1
	if t.Choose(rt.SFault, 6) == 0 {
		n = 2 + t.Choose(rt.SFault, 3)
	}
	for i := 0; i < n; i++ {
		dir := t.Choose(rt.SFault, 2)
		l := lenGE
		if dir == 1 {
			l = lenEG
		}
		if l == 0 {
			dir = 1 - dir
			l = lenGE + lenEG - l
			if l == 0 {
				continue
			}
		}
		var off int
		switch t.Choose(rt.SFault, 4) {
		case 0: // head: key, counts, names
			off = t.Choose(rt.SFault, min(l, 64))
		case 1: // tail: last rows, labels, result
			off = l - 1 - t.Choose(rt.SFault, min(l, 96))
		default:
			off = t.Choose(rt.SFault, l)
		}
		f := simnet.Fault{Off: uint64(off)}
		switch t.Choose(rt.SFault, 4) {
		case 0:
			f.Kind = simnet.FaultFlip
			f.Mask = 1 << t.Choose(rt.SFault, 8)
		case 1:
			f.Kind = simnet.FaultFlip
			f.Mask = 0xff
		case 2:
			f.Kind = simnet.FaultFlip
			f.Mask = byte(1 + t.Choose(rt.SFault, 255))
		case 3:
			f.Kind = simnet.FaultBurst
			f.Len = 2 + t.Choose(rt.SFault, 40)
			f.Seed = uint32(t.Choose(rt.SFault, 1<<16))
		}
		d := fmt.Sprintf("%s off=%d/%d ", []string{"G->E", "E->G"}[dir], off, l)
		if f.Kind == simnet.FaultFlip {
			d += fmt.Sprintf("xor %#02x", f.Mask)
		} else {
			d += fmt.Sprintf("burst len=%d", f.Len)
		}
		desc = append(desc, d)
		if dir == 0 {
			ge = append(ge, f)
		} else {
			eg = append(eg, f)
		}
	}
	return
}

// Run executes one case; seed is the value BeginRun returned.
func (w *C16) Run(t *rt.Tape, trace bool, seed uint64) *core.Result {
	res := &core.Result{Faults: map[string]int{}, Reach: map[string]int{}}
	// transport: not byte-wise (each trial is a complete session), no latency
	dir := simnet.DirConfig{Cap: []int{65536, 4096, -1, 0}[t.Choose(rt.SGen, 4)], Frag: []int{simnet.FragWhole, simnet.FragRandom}[t.Choose(rt.SGen, 2)]}
	pipe := simnet.PipeConfig{AB: dir, BA: dir, Record: true}
	co := gen.CircuitOpts{MaxGates: 40, MaxIn: 12, MaxOutW: 8}
	if w.Tier == "thorough" {
		co = gen.CircuitOpts{MaxGates: 150, MaxIn: 24, MaxOutW: 12}
	}
	circ := gen.Circuit(t, co)
	in := gen.Inputs(t, circ)
	kind := []int{OTCO, OTCO, OTCO, OTCOT, OTCOTMal, OTRSA1024, OTCO, OTCOT}[t.Choose(rt.SGen, 8)]
	want := gen.Eval(circ, in)
	smp := Sample{Circuit: gen.Describe(circ), X: in[0].Text(16), Y: in[1].Text(16), OT: OTNames[kind], GE: core.DescribeDir(dir), EG: core.DescribeDir(dir)}
	res.Class = "whole-circuit ot=" + OTNames[kind]
	h := sha256.New()

	// clean reference session: transcript lengths
	ref := Run(t, Session{Circ: circ, X: in[0], Y: in[1], OT: kind, Pipe: pipe, Trace: false})
	core.Finish(res, ref.RR)
	h.Write([]byte(ref.RR.Hash))
	if res.Inconclusive != "" {
		return res
	}
	if !ref.GDone || ref.GErr != nil || !gen.EqualOutputs(ref.GOut, want) {
		// a broken clean session is C02's business; nothing to corrupt here
		res.Discard = true
		return res
	}
	lenGE, lenEG := len(ref.GE), len(ref.EG)

	trials := 4 + t.Choose(rt.SGen, 8)
	// window mode: consecutive byte offsets of one direction, one mask - dense
	// local enumeration instead of scattered samples
	win := NewWindow(t, lenGE, lenEG)
	if win != nil {
		trials = win.Trials
		res.Reach["window-enumerations"]++
	}
	for k := 0; k < trials; k++ {
		ge, eg, desc := DrawFaults(t, lenGE, lenEG)
		if win != nil {
			ge, eg, desc = win.Fault(k)
		}
		simrand.Reseed(seed) // identical randomness: identical transcript up to the fault
		simnet.Reset()
		p := pipe
		p.AB.Faults, p.BA.Faults = ge, eg
		o := Run(t, Session{Circ: circ, X: in[0], Y: in[1], OT: kind, Pipe: p, Trace: trace})
		h.Write([]byte(o.RR.Hash))
		res.Steps += o.RR.Steps
		res.Switches += o.RR.Switches
		if trace {
			res.Trace = append(res.Trace, fmt.Sprintf("--- trial %d: %v", k, desc))
			res.Trace = append(res.Trace, o.RR.Trace...)
		}
		for kd, n := range o.EA.Stats.FaultsFired {
			res.Faults[[]string{"flip", "burst", "close", "reset"}[kd]] += n
		}
		if o.RR.Outcome == rt.StepCap {
			res.Inconclusive = "step cap reached"
			return res
		}
		smp.Faults = desc
		res.Sample = smp
		// outcome classes (reach)
		switch {
		case !o.GDone && len(o.RR.Crashed) > 0:
			res.Reach["outcome.party-crashed"]++
		case !o.GDone:
			res.Reach["outcome.session-stalled"]++
		case o.GErr != nil:
			res.Reach["outcome.garbler-error"]++
		case gen.EqualOutputs(o.GOut, want):
			res.Reach["outcome.garbler-correct-despite-corruption"]++
		default:
			res.Hash = hex.EncodeToString(h.Sum(nil))
			res.Fail = &core.Failure{Clause: "wrong-result-accepted",
				Detail: fmt.Sprintf("corruption %v: garbler returned %s without error, truth table %s (evaluator: out=%s err=%v)", desc, gen.FmtInts(o.GOut), gen.FmtInts(want), gen.FmtInts(o.EOut), o.EErr)}
			return res
		}
	}
	res.Hash = hex.EncodeToString(h.Sum(nil))
	res.Nontrivial = true
	if res.Sample == nil {
		res.Sample = smp
	}
	return res
}
