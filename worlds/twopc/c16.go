package twopc

import (
	"crypto/sha256"
	"encoding/hex"
	"fmt"
	"io"

	"verifsim/gen"
	"verifsim/sim/rt"
	"verifsim/sim/simnet"
	"verifsim/sim/simrand"
	"verifsim/worlds/core"
)

// Window enumerates consecutive byte offsets of one direction with one mask
// or one arithmetic rewrite of the clean byte (zero, minus one, halved).
type Window struct {
	Dir, Start, Len, Trials int
	Mask                    byte
	Set                     int // 0 = xor Mask; 1 = set to 0; 2 = minus one; 3 = halved
	Clean                   []byte
}

// NewWindow draws a window in a third of the cases (nil otherwise). cleanGE
// and cleanEG are the transcripts of the clean reference session.
func NewWindow(t *rt.Tape, cleanGE, cleanEG []byte) *Window {
	if t.Choose(rt.SFault, 3) != 0 {
		return nil
	}
	w := &Window{Dir: t.Choose(rt.SFault, 2)}
	w.Clean = cleanGE
	if w.Dir == 1 {
		w.Clean = cleanEG
	}
	w.Len = len(w.Clean)
	if w.Len == 0 {
		return nil
	}
	switch t.Choose(rt.SFault, 4) {
	case 0: // the head: key, counts, sizes, names, descriptors
		w.Start = min(48*t.Choose(rt.SFault, 6), max(0, w.Len-1))
	case 1:
		w.Start = max(0, w.Len-48)
	default:
		w.Start = t.Choose(rt.SFault, w.Len)
	}
	switch k := t.Choose(rt.SFault, 7); k {
	case 0, 1, 2, 3:
		w.Mask = []byte{0x01, 0x80, 0xff, 0x10}[k]
	default:
		w.Set = k - 3
	}
	w.Trials = 16 + t.Choose(rt.SFault, 33)
	return w
}

// rewrite returns the xor mask that turns clean byte b into the rewritten value.
func rewrite(set int, b byte) (byte, string) {
	var to byte
	switch set {
	case 1:
		to = 0
	case 2:
		to = b - 1
	case 3:
		to = b >> 1
	}
	if to == b {
		to = b ^ 0x01
	}
	return b ^ to, fmt.Sprintf("%#02x -> %#02x", b, to)
}

// Fault returns the k-th fault of the window.
func (w *Window) Fault(k int) (ge, eg []simnet.Fault, desc []string) {
	off := (w.Start + k) % w.Len
	mask, how := w.Mask, fmt.Sprintf("xor %#02x", w.Mask)
	if w.Set != 0 {
		mask, how = rewrite(w.Set, w.Clean[off])
	}
	f := simnet.Fault{Kind: simnet.FaultFlip, Off: uint64(off), Mask: mask}
	desc = []string{fmt.Sprintf("%s off=%d/%d %s (window)", []string{"G->E", "E->G"}[w.Dir], off, w.Len, how)}
	if w.Dir == 0 {
		return []simnet.Fault{f}, nil, desc
	}
	return nil, []simnet.Fault{f}, desc
}

// C16 is the whole-circuit part of the C16 world.
type C16 struct{ Tier string }

// DrawFaults draws a corruption plan for one trial. cleanGE/cleanEG are the
// transcripts of the clean reference session per direction.
func DrawFaults(t *rt.Tape, cleanGE, cleanEG []byte) (ge, eg []simnet.Fault, desc []string) {
	lenGE, lenEG := len(cleanGE), len(cleanEG)
	if t.Choose(rt.SFault, 8) == 0 {
		// a periodic corruption: the same mask on every p-th byte of a region (a frame mask that was
		// left on, an inverted region, a stuck bit of a bus) - p = 1, 2, 4, 8, 16, 32; 2 to 64 hits
		dir := t.Choose(rt.SFault, 2)
		l := []int{lenGE, lenEG}[dir]
		if l > 0 {
			p := 1 << t.Choose(rt.SFault, 6)
			cnt := 2 + t.Choose(rt.SFault, 63)
			mask := []byte{0x80, 0x01, 0xff, byte(1 + t.Choose(rt.SFault, 255))}[t.Choose(rt.SFault, 4)]
			start := t.Choose(rt.SFault, l)
			if t.Choose(rt.SFault, 2) == 0 { // towards the tail: the returned labels, the result
				start = max(0, l-p*cnt-t.Choose(rt.SFault, 64))
			}
			var fs []simnet.Fault
			for i := 0; i < cnt && start+i*p < l; i++ {
				fs = append(fs, simnet.Fault{Kind: simnet.FaultFlip, Off: uint64(start + i*p), Mask: mask})
			}
			desc = []string{fmt.Sprintf("%s xor %#02x on every %d-th byte from %d, %d times (of %d bytes)", []string{"G->E", "E->G"}[dir], mask, p, start, len(fs), l)}
			if dir == 0 {
				return fs, nil, desc
			}
			return nil, fs, desc
		}
	}
	n := 1
	if t.Choose(rt.SFault, 6) == 0 {
		n = 2 + t.Choose(rt.SFault, 3)
	}
	for i := 0; i < n; i++ {
		dir := t.Choose(rt.SFault, 2)
		l := lenGE
		if dir == 1 {
			l = lenEG
		}
		if l == 0 {
			dir = 1 - dir
			l = lenGE + lenEG - l
			if l == 0 {
				continue
			}
		}
		var off int
		switch t.Choose(rt.SFault, 4) {
		case 0: // head: key, counts, sizes, names, descriptors
			off = t.Choose(rt.SFault, min(l, 256))
		case 1: // tail: last rows, labels, result
			off = l - 1 - t.Choose(rt.SFault, min(l, 96))
		default:
			off = t.Choose(rt.SFault, l)
		}
		f := simnet.Fault{Off: uint64(off)}
		how := ""
		switch t.Choose(rt.SFault, 5) {
		case 4: // a count or length that becomes smaller: 0, one less, half
			clean := cleanGE
			if dir == 1 {
				clean = cleanEG
			}
			f.Kind = simnet.FaultFlip
			f.Mask, how = rewrite(1+t.Choose(rt.SFault, 3), clean[off])
		case 0:
			f.Kind = simnet.FaultFlip
			f.Mask = 1 << t.Choose(rt.SFault, 8)
		case 1:
			f.Kind = simnet.FaultFlip
			f.Mask = 0xff
		case 2:
			f.Kind = simnet.FaultFlip
			f.Mask = byte(1 + t.Choose(rt.SFault, 255))
		case 3:
			f.Kind = simnet.FaultBurst
			f.Len = 2 + t.Choose(rt.SFault, 40)
			f.Seed = uint32(t.Choose(rt.SFault, 1<<16))
		}
		d := fmt.Sprintf("%s off=%d/%d ", []string{"G->E", "E->G"}[dir], off, l)
		if how != "" {
			d += how
		} else if f.Kind == simnet.FaultFlip {
			d += fmt.Sprintf("xor %#02x", f.Mask)
		} else {
			d += fmt.Sprintf("burst len=%d", f.Len)
		}
		desc = append(desc, d)
		if dir == 0 {
			ge = append(ge, f)
		} else {
			eg = append(eg, f)
		}
	}
	return
}

// Run executes one case; seed is the value BeginRun returned.
func (w *C16) Run(t *rt.Tape, trace bool, seed uint64) *core.Result {
	res := &core.Result{Faults: map[string]int{}, Reach: map[string]int{}}
	// transport: not byte-wise (each trial is a complete session), no latency
	dir := simnet.DirConfig{Cap: []int{65536, 4096, -1, 0}[t.Choose(rt.SGen, 4)], Frag: []int{simnet.FragWhole, simnet.FragRandom}[t.Choose(rt.SGen, 2)]}
	pipe := simnet.PipeConfig{AB: dir, BA: dir, Record: true}
	co := gen.CircuitOpts{MaxGates: 40, MaxIn: 12, MaxOutW: 8}
	if w.Tier == "thorough" {
		co = gen.CircuitOpts{MaxGates: 150, MaxIn: 24, MaxOutW: 12}
	}
	if t.Choose(rt.SGen, 5) == 0 {
		co.MaxOutW = 200 // results of several machine words: whatever is done per word or per chunk of result bits happens more than once
		res.Reach["circuit.wide-outputs"]++
	}
	circ := gen.Circuit(t, co)
	in := gen.Inputs(t, circ)
	kind := []int{OTCO, OTCO, OTCO, OTCOT, OTCOTMal, OTRSA1024, OTCO, OTCOT}[t.Choose(rt.SGen, 8)]
	want := gen.Eval(circ, in)
	// In a quarter of the cases the garbler's randomness source delivers short reads at every
	// multiple of a block size (a buffered reader; the block is a multiple of 16 and at least 32,
	// so the code's own key- and label-sized reads stay whole, a larger bulk read would not).
	var garbleRand func(io.Reader) io.Reader
	if t.Choose(rt.SGen, 4) == 0 {
		block := []int{32, 48, 64, 160, 4096}[t.Choose(rt.SGen, 5)]
		garbleRand = func(r io.Reader) io.Reader { return &simrand.ShortReader{R: r, Block: block} }
		res.Reach["garbler-randomness.short-reads-at-block-boundaries"]++
	}
	// the verbose flag of either party (a quarter of the cases each): reports, never results
	verbG, verbE := t.Choose(rt.SGen, 4) == 0, t.Choose(rt.SGen, 4) == 0
	if verbG || verbE {
		res.Reach["option.verbose"]++
	}
	smp := Sample{Circuit: gen.Describe(circ), X: in[0].Text(16), Y: in[1].Text(16), OT: OTNames[kind], GE: core.DescribeDir(dir), EG: core.DescribeDir(dir)}
	if verbG {
		smp.Second = "garbler verbose"
	}
	res.Class = "whole-circuit ot=" + OTNames[kind]
	h := sha256.New()

	// clean reference session: transcript lengths
	rt.AllocPeak = 0
	ref := Run(t, Session{Circ: circ, X: in[0], Y: in[1], OT: kind, Pipe: pipe, Trace: false, GarbleRand: garbleRand, VerboseG: verbG, VerboseE: verbE})
	// The corrupted sessions run on a machine with 8 times the memory the clean
	// session needed per request: a corrupted count then ends in an allocation
	// failure (a crashed party) instead of hours of work on 2^24 phantom wires.
	defer func(old uint64) { rt.AllocLimit = old }(rt.AllocLimit)
	rt.AllocLimit = max(256<<10, 8*rt.AllocPeak)
	core.Finish(res, ref.RR)
	h.Write([]byte(ref.RR.Hash))
	if res.Inconclusive != "" {
		return res
	}
	if !ref.GDone || ref.GErr != nil || !gen.EqualOutputs(ref.GOut, want) {
		// a broken clean session is C02's business; nothing to corrupt here
		res.Discard = true
		return res
	}

	trials := 4 + t.Choose(rt.SGen, 8)
	// window mode: consecutive byte offsets of one direction, one mask - dense
	// local enumeration instead of scattered samples
	win := NewWindow(t, ref.GE, ref.EG)
	if win != nil {
		trials = win.Trials
		res.Reach["window-enumerations"]++
	}
	for k := 0; k < trials; k++ {
		ge, eg, desc := DrawFaults(t, ref.GE, ref.EG)
		if win != nil {
			ge, eg, desc = win.Fault(k)
		}
		simrand.Reseed(seed) // identical randomness: identical transcript up to the fault
		simnet.Reset()
		p := pipe
		p.AB.Faults, p.BA.Faults = ge, eg
		o := Run(t, Session{Circ: circ, X: in[0], Y: in[1], OT: kind, Pipe: p, Trace: trace, AbortOnStall: true, GarbleRand: garbleRand, VerboseG: verbG, VerboseE: verbE})
		h.Write([]byte(o.RR.Hash))
		res.Steps += o.RR.Steps
		res.Switches += o.RR.Switches
		if trace {
			res.Trace = append(res.Trace, fmt.Sprintf("--- trial %d: %v", k, desc))
			res.Trace = append(res.Trace, o.RR.Trace...)
		}
		for kd, n := range o.EA.Stats.FaultsFired {
			res.Faults[[]string{"flip", "burst", "close", "reset", "write-error"}[kd]] += n
		}
		if o.RR.Outcome == rt.StepCap {
			res.Inconclusive = "step cap reached"
			return res
		}
		smp.Faults = desc
		res.Sample = smp
		// outcome classes (reach)
		switch {
		case !o.GDone && len(o.RR.Crashed) > 0:
			res.Reach["outcome.party-crashed"]++
		case !o.GDone:
			res.Reach["outcome.session-stalled"]++
		case o.GErr != nil && o.Aborted:
			res.Reach["outcome.session-stalled-then-aborted:garbler-error"]++
		case o.GErr != nil:
			res.Reach["outcome.garbler-error"]++
		case gen.EqualOutputs(o.GOut, want):
			res.Reach["outcome.garbler-correct-despite-corruption"]++
		default:
			res.Hash = hex.EncodeToString(h.Sum(nil))
			res.Fail = &core.Failure{Clause: "wrong-result-accepted",
				Detail: fmt.Sprintf("corruption %v: garbler returned %s without error, truth table %s (evaluator: out=%s err=%v)", desc, gen.FmtInts(o.GOut), gen.FmtInts(want), gen.FmtInts(o.EOut), o.EErr)}
			return res
		}
	}
	res.Hash = hex.EncodeToString(h.Sum(nil))
	res.Nontrivial = true
	if res.Sample == nil {
		res.Sample = smp
	}
	return res
}
