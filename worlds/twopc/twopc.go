// Package twopc is the simulated two-party world: circuit.Garbler against
// circuit.Evaluator over two p2p.Conn on one simulated pipe. It serves C02
// (correct runs over an arbitrary faithful transport), the whole-circuit part
// of C04 (transcript monitor) and of C16 (corruption in transit).
package twopc

import (
	"fmt"
	"io"
	"math/big"
	"time"

	"github.com/markkurossi/mpc/circuit"
	"github.com/markkurossi/mpc/env"
	"github.com/markkurossi/mpc/ot"
	"github.com/markkurossi/mpc/p2p"

	"verifsim/gen"
	"verifsim/sim/rt"
	"verifsim/sim/simnet"
	"verifsim/sim/simrand"
	"verifsim/worlds/core"
)

// OT kinds.
const (
	OTCO = iota
	OTCOT
	OTCOTMal
	OTRSA1024
	OTRSA2048
	NumOT
	// shared COT instances (ot.NewCOT(..., shared = true)): initialised once, used
	// by several sessions over the same connection; only two-session cases draw them
	OTCOTShared    = NumOT
	OTCOTMalShared = NumOT + 1
)

// OTNames names the OT kinds.
var OTNames = []string{"CO", "COT", "COT-malicious", "RSA-1024", "RSA-2048", "COT-shared", "COT-malicious-shared"}

// NewOT builds an OT instance of the kind.
func NewOT(kind int, r *simrand.DRBG) ot.OT {
	switch kind {
	case OTCO:
		return ot.NewCO(r)
	case OTCOT:
		return ot.NewCOT(ot.NewCO(r), r, false, false)
	case OTCOTMal:
		return ot.NewCOT(ot.NewCO(r), r, true, false)
	case OTRSA1024:
		return ot.NewRSA(r, 1024)
	case OTRSA2048:
		return ot.NewRSA(r, 2048)
	case OTCOTShared:
		return ot.NewCOT(ot.NewCO(r), r, false, true)
	case OTCOTMalShared:
		return ot.NewCOT(ot.NewCO(r), r, true, true)
	}
	panic("bad OT kind")
}

// otSpy wraps the garbler's OT and records the wires it is asked to
// transfer: L0 xor L1 of any of them is the garbler's secret offset R.
type otSpy struct {
	ot.OT
	Wires []ot.Wire
	// AfterSend, if set, runs when a Send has returned (the session's OT phase is over)
	AfterSend func()
}

func (s *otSpy) Send(wires []ot.Wire) error {
	s.Wires = append(s.Wires, wires...)
	err := s.OT.Send(wires)
	if s.AfterSend != nil {
		s.AfterSend()
	}
	return err
}

// Session describes one protocol session.
type Session struct {
	Circ  *circuit.Circuit
	X, Y  *big.Int
	OT    int
	Pipe  simnet.PipeConfig
	Trace bool
	// VerboseG, VerboseE: the verbose argument of circuit.Garbler / circuit.Evaluator (progress
	// and timing reports; all sessions of the run use it)
	VerboseG, VerboseE bool
	// GarbleRand, if set, wraps the garbler's randomness source.
	GarbleRand func(io.Reader) io.Reader
	// AbortOnStall: when the session stalls (both parties wait for bytes that
	// will never come), both sockets are closed as an operator would do, and
	// the parties run on to whatever they return.
	AbortOnStall bool
	// Next, if set, is a second session (Circ, X, Y) that the same two
	// processes run after the first one succeeded: same OT objects, same
	// env.Config, as the evaluator loop of apps/garbled does. SameConn: over the
	// same p2p.Conn (what a shared COT needs), else over a fresh pipe and Conn.
	Next     *Session
	SameConn bool
	// Par, if set, is a session (Circ, X, Y) that the same two processes serve at
	// the same time as this one, as a server handling two clients does: its own
	// connection and OT objects, but the same env.Config and - if Par.Circ is the
	// same pointer - the same circuit value. The garbler's randomness source is
	// then a scheduling point (a read from the OS takes time). ParDelay: how long
	// after the first session the second one starts.
	// Prelude, if set, is a session (Circ, X, Y) that the same two processes run FIRST, over a
	// connection of its own that is reset at byte PreludeCut of direction PreludeDir (0 = garbler
	// to evaluator): it fails at both ends (or completes, if the stream is shorter), both give the
	// connection up, and then the session proper runs over a fresh connection with the same
	// env.Config and circuit value and - for OT kinds that can be initialised again - the same OT
	// objects. Only the session proper is judged: fail, then carry on.
	Prelude    *Session
	PreludeDir int
	PreludeCut uint64
	// PreludeRandFail > 0: the prelude fails differently - its connection is sound, but the
	// garbler's randomness source returns an error after that many bytes (once; the source works
	// again for the sessions that follow)
	PreludeRandFail int
	Par             *Session
	ParDelay        time.Duration
	RandStallOneIn  int // with Par: one read in so many of the shared randomness source stalls
	// ParAfterOT: the second client does not arrive after a delay but at a moment of the first
	// session - when the first garbler's oblivious transfer has just finished and it waits for the
	// evaluator's answer
	ParAfterOT bool
	// UsePipe: the session runs over the library's in-memory transport (p2p.Pipe) instead of the
	// simulated socket pair (plain sessions only: no transcripts, no faults)
	UsePipe bool
}

// failAfter is a randomness source that delivers left bytes and then returns an error.
type failAfter struct {
	r    io.Reader
	left int
}

func (f *failAfter) Read(p []byte) (int, error) {
	if f.left <= 0 {
		return 0, fmt.Errorf("simrand: entropy source failed")
	}
	if len(p) > f.left {
		p = p[:f.left]
	}
	n, err := f.r.Read(p)
	f.left -= n
	return n, err
}

// keepAndScribble is what a caller may do once a session has returned: it copies the results it
// wants to keep and then reuses its own values - the result numbers and the input it passed in -
// for something else. Whatever the library still holds of them must not matter to later sessions.
func keepAndScribble(out []*big.Int, in *big.Int) []*big.Int {
	kept := make([]*big.Int, len(out))
	for i, v := range out {
		if v != nil {
			kept[i] = new(big.Int).Set(v)
			v.SetUint64(0xdeadbeefcafe)
			v.Lsh(v, 70)
		}
	}
	if in != nil {
		in.SetInt64(-1)
	}
	return kept
}

// Out is what a session produced.
type Out struct {
	RR           rt.Result
	GOut, EOut   []*big.Int
	GErr, EErr   error
	GDone, EDone bool
	GE, EG       []byte // transcripts per direction (if recorded)
	OTWires      []ot.Wire
	EA, EB       *simnet.Endpoint
	Aborted      bool // the session stalled and was aborted
	Next         *Out // the second session, if any (GE/EG: its own bytes only)
	Par          *Out // the session served at the same time, if any
	// the aborted first session, if any: what the parties returned
	PreGErr, PreEErr   error
	PreGDone, PreEDone bool
}

// Run executes one session under the simulator.
func Run(t *rt.Tape, s Session) *Out {
	o := &Out{}
	ea, eb := simnet.Pipe("G", "E", s.Pipe)
	o.EA, o.EB = ea, eb
	spy := &otSpy{OT: NewOT(s.OT, simrand.Stream("G-ot"))}
	otE := NewOT(s.OT, simrand.Stream("E-ot"))
	cfg := &env.Config{Rand: simrand.Stream("G-garble")}
	if s.GarbleRand != nil {
		cfg.Rand = s.GarbleRand(cfg.Rand)
	} else if s.Par == nil && t.Choose(rt.SGen, 4) == 0 {
		// the default configuration: no Rand set, GetRandom falls back to crypto/rand.Reader (which is
		// the simulator's per-party stream)
		cfg = &env.Config{}
	}
	var onStall func() bool
	if s.AbortOnStall {
		onStall = func() bool {
			if o.Aborted || o.GDone && o.EDone {
				return false // only connection-writer tasks are left
			}
			o.Aborted = true
			ea.Abort()
			eb.Abort()
			return true
		}
	}
	var ea2, eb2 *simnet.Endpoint
	if s.Next != nil {
		o.Next = &Out{}
		if !s.SameConn {
			ea2, eb2 = simnet.Pipe("G'", "E'", s.Pipe)
			o.Next.EA, o.Next.EB = ea2, eb2
		}
	}
	abort := func(first, second *simnet.Endpoint) {
		first.Abort()
		if second != nil {
			second.Abort()
		}
	}
	var otDone bool
	var otWait []*rt.Task
	release := func() {
		otDone = true
		for _, w := range otWait {
			rt.Ready(w)
		}
		otWait = nil
	}
	if s.ParAfterOT {
		spy.AfterSend = release
	}
	var ea3, eb3 *simnet.Endpoint
	var spyP *otSpy
	var otEP ot.OT
	if s.Par != nil {
		o.Par = &Out{}
		ea3, eb3 = simnet.Pipe("Gp", "Ep", s.Pipe)
		o.Par.EA, o.Par.EB = ea3, eb3
		spyP = &otSpy{OT: NewOT(s.OT, simrand.Stream("G-ot-par"))}
		otEP = NewOT(s.OT, simrand.Stream("E-ot-par"))
		cfg.Rand = &simrand.Yielding{R: cfg.Rand, StallOneIn: s.RandStallOneIn}
	}
	var eaP, ebP *simnet.Endpoint
	if s.Prelude != nil {
		pp := s.Pipe
		pp.Record = false
		f := simnet.Fault{Kind: simnet.FaultReset, Off: s.PreludeCut}
		if s.PreludeRandFail > 0 {
			// no transport fault
		} else if s.PreludeDir == 0 {
			pp.AB.Faults = []simnet.Fault{f}
		} else {
			pp.BA.Faults = []simnet.Fault{f}
		}
		eaP, ebP = simnet.Pipe("G0", "E0", pp)
	}
	reusable := s.OT == OTCO || s.OT == OTRSA1024 || s.OT == OTRSA2048
	var ge1, eg1 int // bytes of the first session on a shared connection
	o.RR = rt.Run(rt.Config{Trace: s.Trace, NoProgress: core.NoProgressDefault, OnStall: onStall, OnCrash: func(party string, _ *rt.Task) {
		// a crashed process loses its sockets
		if party == "G" {
			abort(ea, ea2)
			if eaP != nil {
				eaP.Abort()
			}
			if ea3 != nil {
				ea3.Abort()
			}
		} else if party == "E" {
			abort(eb, eb2)
			if ebP != nil {
				ebP.Abort()
			}
			if eb3 != nil {
				eb3.Abort()
			}
		}
	}}, t, func() {
		var pipeG, pipeE *p2p.Conn
		if s.UsePipe {
			pipeG, pipeE = p2p.Pipe()
		}
		rt.GoParty("G", "garbler", func() {
			if s.Prelude != nil {
				connP := p2p.NewConn(eaP)
				cfgP := cfg
				if s.PreludeRandFail > 0 {
					cfgP = &env.Config{Rand: &failAfter{r: cfg.Rand, left: s.PreludeRandFail}}
				}
				_, o.PreGErr = circuit.Garbler(cfgP, connP, spy, s.Prelude.Circ, s.Prelude.X, s.VerboseG)
				o.PreGDone = true
				if o.PreGErr == nil {
					connP.Close()
				}
				eaP.Abort()
				spy.Wires = nil
				if !reusable {
					spy.OT = NewOT(s.OT, simrand.Stream("G-ot-again"))
				}
			}
			conn := p2p.NewConn(ea)
			if s.UsePipe {
				conn = pipeG
			}
			o.GOut, o.GErr = circuit.Garbler(cfg, conn, spy, s.Circ, s.X, s.VerboseG)
			o.GDone = true
			release() // (a first session without an OT phase must not keep the second client waiting)
			o.OTWires, spy.Wires = spy.Wires, nil
			if s.Next != nil || s.Par != nil {
				o.GOut = keepAndScribble(o.GOut, s.X)
			}
			if o.GErr != nil {
				abort(ea, ea2)
				if s.UsePipe {
					conn.Close()
				}
				return
			}
			if s.Next == nil {
				conn.Close()
				return
			}
			if !s.SameConn {
				conn.Close()
				conn = p2p.NewConn(ea2)
			} else {
				conn.Flush()
				ge1 = int(ea.SentCount())
			}
			n := o.Next
			n.GOut, n.GErr = circuit.Garbler(cfg, conn, spy, s.Next.Circ, s.Next.X, s.VerboseG)
			n.GDone = true
			n.OTWires = spy.Wires
			if n.GErr != nil {
				abort(ea, ea2)
			} else {
				conn.Close()
			}
		})
		if s.Par != nil {
			n := o.Par
			rt.GoParty("G", "garbler-par", func() {
				rt.Sleep(s.ParDelay)
				if s.ParAfterOT {
					for !otDone {
						otWait = append(otWait, rt.Current())
						rt.Park("second client waits for the first session's OT to finish")
					}
				}
				conn := p2p.NewConn(ea3)
				n.GOut, n.GErr = circuit.Garbler(cfg, conn, spyP, s.Par.Circ, s.Par.X, s.VerboseG)
				n.GDone = true
				n.OTWires = spyP.Wires
				if n.GErr != nil {
					ea3.Abort()
				} else {
					conn.Close()
				}
			})
			rt.GoParty("E", "evaluator-par", func() {
				rt.Sleep(s.ParDelay)
				if s.ParAfterOT {
					for !otDone {
						otWait = append(otWait, rt.Current())
						rt.Park("second client waits for the first session's OT to finish")
					}
				}
				conn := p2p.NewConn(eb3)
				n.EOut, n.EErr = circuit.Evaluator(conn, otEP, s.Par.Circ, s.Par.Y, s.VerboseE)
				n.EDone = true
				if n.EErr != nil {
					eb3.Abort()
				} else {
					conn.Close()
				}
			})
		}
		rt.GoParty("E", "evaluator", func() {
			if s.Prelude != nil {
				connP := p2p.NewConn(ebP)
				_, o.PreEErr = circuit.Evaluator(connP, otE, s.Prelude.Circ, s.Prelude.Y, s.VerboseE)
				o.PreEDone = true
				if o.PreEErr == nil {
					connP.Close()
				}
				ebP.Abort()
				if !reusable {
					otE = NewOT(s.OT, simrand.Stream("E-ot-again"))
				}
			}
			conn := p2p.NewConn(eb)
			if s.UsePipe {
				conn = pipeE
			}
			o.EOut, o.EErr = circuit.Evaluator(conn, otE, s.Circ, s.Y, s.VerboseE)
			o.EDone = true
			if s.Next != nil || s.Par != nil {
				o.EOut = keepAndScribble(o.EOut, s.Y)
			}
			if o.EErr != nil {
				abort(eb, eb2)
				if s.UsePipe {
					conn.Close()
				}
				return
			}
			if s.Next == nil {
				conn.Close()
				return
			}
			if !s.SameConn {
				conn.Close()
				conn = p2p.NewConn(eb2)
			} else {
				conn.Flush()
				eg1 = int(eb.SentCount())
			}
			n := o.Next
			n.EOut, n.EErr = circuit.Evaluator(conn, otE, s.Next.Circ, s.Next.Y, s.VerboseE)
			n.EDone = true
			if n.EErr != nil {
				abort(eb, eb2)
			} else {
				conn.Close()
			}
		})
	})
	o.GE, o.EG = ea.Sent(), eb.Sent()
	if o.Par != nil {
		o.Par.GE, o.Par.EG = ea3.Sent(), eb3.Sent()
		if !o.Par.GDone {
			o.Par.OTWires = spyP.Wires
		}
	}
	if s.Next == nil {
		if !o.GDone {
			o.OTWires = spy.Wires // what the garbler had handed over when the session ended
		}
	} else if s.SameConn {
		ge1, eg1 = min(ge1, len(o.GE)), min(eg1, len(o.EG))
		o.Next.GE, o.Next.EG = o.GE[ge1:], o.EG[eg1:]
		o.GE, o.EG = o.GE[:ge1], o.EG[:eg1]
		o.Next.EA, o.Next.EB = ea, eb
	} else {
		o.Next.GE, o.Next.EG = ea2.Sent(), eb2.Sent()
	}
	return o
}

// DrawOT draws an OT kind: CO most often, RSA-2048 only in the thorough tier.
func DrawOT(t *rt.Tape, tier string) int {
	switch t.Choose(rt.SGen, 16) {
	case 0, 1, 2, 3, 4, 5, 6:
		return OTCO
	case 7, 8, 9, 10:
		return OTCOT
	case 11, 12, 13:
		return OTCOTMal
	case 14:
		return OTRSA1024
	default:
		if tier == "thorough" && t.Choose(rt.SGen, 4) == 0 {
			return OTRSA2048
		}
		return OTRSA1024
	}
}

// C02 is the world of property C02. Compiled, if set, supplies circuits
// compiled from MPCL programs (with parsed inputs) for a share of the cases.
type C02 struct {
	Tier     string
	Compiled func(t *rt.Tape) (*circuit.Circuit, []*big.Int, string)
}

// Sample is the written-out case of a two-party run.
type Sample struct {
	Circuit string
	X, Y    string
	OT      string
	GE, EG  string
	Faults  []string `json:",omitempty"`
	Second  string   `json:",omitempty"`
}

// DrawPipe draws the two directions of the pipe.
func DrawPipe(t *rt.Tape) (simnet.PipeConfig, bool) {
	ge, s1 := core.DrawDir(t, core.Caps)
	eg, s2 := core.DrawDir(t, core.Caps)
	return simnet.PipeConfig{AB: ge, BA: eg}, s1 || s2
}

// Run executes one case.
func (w *C02) Run(t *rt.Tape, trace bool) *core.Result {
	res := &core.Result{Reach: map[string]int{}}
	core.BeginRun(t)
	pipe, small := DrawPipe(t)
	opts := gen.CircuitOpts{ZeroWidth: true, SignedArgs: true}
	if w.Tier == "thorough" {
		opts.MaxGates = 1500 // deeper bounds in the thorough tier
		opts.MaxIn = 48
	}
	if small {
		opts.MaxGates = 60
	}
	kind := DrawOT(t, w.Tier)
	if small && (kind == OTRSA1024 || kind == OTRSA2048 || kind == OTCOT || kind == OTCOTMal) && t.Choose(rt.SGen, 4) != 0 {
		kind = OTCO // byte-wise delivery of kilobyte OT messages is slow; keep some
	}
	if !small && kind != OTRSA1024 && kind != OTRSA2048 {
		opts.WideLast = 1100 // evaluator inputs spanning several OT-extension chunks
	}
	if !small && t.Choose(rt.SGen, 6) == 0 {
		opts.MaxOutW = 300 // results of several machine words
		res.Reach["circuit.wide-outputs"]++
	}
	circ := gen.Circuit(t, opts)
	in := gen.Inputs(t, circ)
	if t.Choose(rt.SGen, 8) == 0 {
		// a circuit put together by hand (a struct literal: the type has no constructor): gates, wires
		// and signature are there, the gate statistics - a report, filled in by the parsers and the
		// compiler - were never computed
		circ.Stats = circuit.Stats{}
		res.Reach["circuit.hand-built-without-statistics"]++
	}
	if w.Compiled != nil && !small && t.Choose(rt.SGen, 5) == 0 {
		// a circuit compiled from an MPCL program (compound and array arguments,
		// multi-output signatures as the compiler produces them)
		if c2, in2, name := w.Compiled(t); c2 != nil && c2.NumGates <= 20000 && (kind == OTCO || kind == OTCOT || kind == OTCOTMal || int(c2.Inputs[1].Type.Bits) <= 16) {
			circ, in = c2, in2
			res.Reach["circuit.compiled-from-mpcl"]++
			res.Class = "compiled:" + name
		}
	}
	// One case in four (of those on a transport that is not byte-wise): the same two processes run a second session afterwards,
	// with the same OT objects and the same env.Config (the evaluator loop of
	// apps/garbled keeps one OT object and one circuit value for all its
	// sessions): over a fresh connection, or over the same one (which is what a
	// COT created with shared = true is for).
	sess := Session{Circ: circ, X: new(big.Int).Set(in[0]), Y: new(big.Int).Set(in[1]), OT: kind, Pipe: pipe, Trace: trace}
	// the verbose flag of either party (a quarter of the sessions each): reports, never results
	sess.VerboseG, sess.VerboseE = t.Choose(rt.SGen, 4) == 0, t.Choose(rt.SGen, 4) == 0
	if sess.VerboseG || sess.VerboseE {
		res.Reach["option.verbose"]++
	}
	var circ2 *circuit.Circuit
	var in2, want2 []*big.Int
	second := ""
	if !small && res.Reach["circuit.compiled-from-mpcl"] == 0 && t.Choose(rt.SGen, 4) == 0 {
		sess.SameConn = t.Choose(rt.SGen, 2) == 0
		if sess.SameConn {
			sess.OT = []int{OTCO, OTCOTShared, OTCOTMalShared, OTRSA1024}[t.Choose(rt.SGen, 4)]
		} else if kind != OTCO && kind != OTRSA1024 {
			sess.OT = OTCO // a COT that is not shared refuses a second initialisation
		}
		kind = sess.OT
		circ2 = circ
		if t.Choose(rt.SGen, 2) == 0 {
			circ2 = gen.Circuit(t, gen.CircuitOpts{ZeroWidth: true})
		}
		in2 = gen.Inputs(t, circ2)
		want2 = gen.Eval(circ2, in2)
		sess.Next = &Session{Circ: circ2, X: in2[0], Y: in2[1]}
		second = fmt.Sprintf("second session (same connection: %v): %s x=%s y=%s", sess.SameConn, gen.Describe(circ2), in2[0].Text(16), in2[1].Text(16))
		res.Reach["two-sessions.same-connection="+fmt.Sprint(sess.SameConn)]++
	}
	// One case in five (same restriction): the two processes serve another session at the
	// same time - a server with two clients: own connections and OT objects, the same
	// env.Config and, two times in three, the same circuit value.
	var circ3 *circuit.Circuit
	var in3, want3 []*big.Int
	if !small && sess.Next == nil && res.Reach["circuit.compiled-from-mpcl"] == 0 && kind != OTRSA1024 && kind != OTRSA2048 && t.Choose(rt.SGen, 5) == 0 {
		circ3 = circ
		if t.Choose(rt.SGen, 3) == 0 {
			circ3 = gen.Circuit(t, gen.CircuitOpts{ZeroWidth: true})
		}
		in3 = gen.Inputs(t, circ3)
		want3 = gen.Eval(circ3, in3)
		sess.Par = &Session{Circ: circ3, X: in3[0], Y: in3[1]}
		sess.ParDelay = []time.Duration{0, 0, time.Millisecond, 20 * time.Millisecond}[t.Choose(rt.SGen, 4)]
		if lat := max(pipe.AB.LatMax, pipe.BA.LatMax); lat > 0 && t.Choose(rt.SGen, 2) == 0 {
			// on a link with latency: the second client arrives some half round trips into the first
			// session (while it transfers tables, runs its OT, waits for the result)
			sess.ParDelay = time.Duration(t.Choose(rt.SGen, 16)) * lat / 2
		}
		sess.RandStallOneIn = []int{0, 4, 16, 64}[t.Choose(rt.SGen, 4)]
		sess.ParAfterOT = t.Choose(rt.SGen, 3) == 0
		second = fmt.Sprintf("session served at the same time (same circuit value: %v, starts %v later): %s x=%s y=%s", circ3 == circ, sess.ParDelay, gen.Describe(circ3), in3[0].Text(16), in3[1].Text(16))
		res.Reach["concurrent-sessions.same-circuit-value="+fmt.Sprint(circ3 == circ)]++
	}
	// One case in six (same restriction): fail, then carry on. The two processes first run a
	// session whose connection is reset at a tape-chosen byte; both ends give it up; then the
	// session of the case runs over a fresh connection - same env.Config, same circuit value (two
	// times in three) and, for CO and RSA, the same OT objects. Only that session is judged.
	if !small && sess.Next == nil && res.Reach["circuit.compiled-from-mpcl"] == 0 && kind != OTRSA2048 && t.Choose(rt.SGen, 6-3*min(1, len(second))) == 0 {
		pc := circ
		if t.Choose(rt.SGen, 3) == 0 {
			pc = gen.Circuit(t, gen.CircuitOpts{ZeroWidth: true})
		}
		pin := gen.Inputs(t, pc)
		sess.Prelude = &Session{Circ: pc, X: pin[0], Y: pin[1]}
		sess.PreludeDir = t.Choose(rt.SGen, 2)
		sess.PreludeCut = uint64(t.Choose(rt.SGen, 1<<uint(2+t.Choose(rt.SGen, 15))))
		if k := t.Choose(rt.SGen, 3); k == 0 || k == 1 && sess.Par != nil {
			// the other way to fail: the garbler runs out of randomness in the middle of garbling
			sess.PreludeRandFail = 1 + t.Choose(rt.SGen, 16*(pc.Inputs.Size()+4))
		}
		if sess.Par != nil {
			second += "; "
		}
		second += fmt.Sprintf("preceded by a session (%s) that fails: connection reset at byte %d of direction %d, or (if > 0) garbler randomness failing after %d bytes", gen.Describe(pc), sess.PreludeCut, sess.PreludeDir, sess.PreludeRandFail)
		res.Reach["fail-then-carry-on"]++
	}
	geDesc, egDesc := core.DescribeDir(pipe.AB), core.DescribeDir(pipe.BA)
	if sess.Next == nil && sess.Par == nil && sess.Prelude == nil && t.Choose(rt.SGen, 8) == 0 {
		sess.UsePipe = true
		geDesc, egDesc = "p2p.Pipe", "p2p.Pipe"
		res.Reach["transport.p2p.Pipe"]++
	}
	res.Sample = Sample{Circuit: gen.Describe(circ), X: in[0].Text(16), Y: in[1].Text(16), OT: OTNames[kind], GE: geDesc, EG: egDesc, Second: second}
	res.Class = "ot=" + OTNames[kind]
	want := gen.Eval(circ, in)

	o := Run(t, sess)
	core.Finish(res, o.RR)
	st := o.EA.Stats
	res.Reach["pipe.short-reads"] += st.ShortReads
	res.Reach["pipe.writer-blocked"] += st.WriterBlocked
	res.Reach["pipe.one-byte-reads"] += st.OneByteReads
	res.Reach["ot."+OTNames[kind]]++
	if len(circ.Outputs) > 1 {
		res.Reach["circuit.multi-output"]++
	}
	for i, a := range circ.Inputs {
		if a.Type.Bits == 0 {
			res.Reach[fmt.Sprintf("circuit.zero-width-argument-of-%s", []string{"garbler", "evaluator"}[i%2])]++
		}
	}
	res.Nontrivial = o.RR.Switches > 2
	if res.Inconclusive != "" {
		return res
	}
	fail := func(clause, detail string) *core.Result {
		res.Fail = &core.Failure{Clause: clause, Detail: detail}
		return res
	}
	if sess.Prelude != nil {
		switch {
		case o.PreGDone && o.PreGErr != nil || o.PreEDone && o.PreEErr != nil:
			res.Reach["fail-then-carry-on.first-session-failed"]++
		case o.PreGDone && o.PreEDone:
			res.Reach["fail-then-carry-on.first-session-completed"]++
		}
		if len(o.RR.Crashed) > 0 && (!o.PreGDone || !o.PreEDone) {
			// a crash inside the faulted session is not this property's business (C16 speaks about
			// corrupted sessions); a crashed process would not carry on
			res.Discard = true
			res.Reach["discard: a party crashed inside the session whose connection was reset"]++
			return res
		}
	}
	if len(o.RR.Crashed) > 0 {
		return fail("panic", core.CrashDetail(o.RR))
	}
	if o.GDone && o.GErr != nil {
		return fail("garbler-error", o.GErr.Error())
	}
	if o.EDone && o.EErr != nil {
		return fail("evaluator-error", o.EErr.Error())
	}
	if !o.GDone || !o.EDone {
		return fail("did-not-terminate", fmt.Sprintf("%v: garbler done=%v evaluator done=%v; unfinished tasks: %v", o.RR.Outcome, o.GDone, o.EDone, o.RR.Blocked))
	}
	if len(o.GOut) != len(circ.Outputs) || len(o.EOut) != len(circ.Outputs) {
		return fail("output-count", fmt.Sprintf("garbler returned %d values, evaluator %d, circuit declares %d outputs", len(o.GOut), len(o.EOut), len(circ.Outputs)))
	}
	if !gen.EqualOutputs(o.GOut, o.EOut) {
		return fail("parties-disagree", fmt.Sprintf("garbler %s evaluator %s", gen.FmtInts(o.GOut), gen.FmtInts(o.EOut)))
	}
	if !gen.EqualOutputs(o.GOut, want) {
		return fail("wrong-result", fmt.Sprintf("protocol %s, truth table %s", gen.FmtInts(o.GOut), gen.FmtInts(want)))
	}
	got, err := circ.Compute(gen.FlattenInputs(circ, in))
	if err != nil || !gen.EqualOutputs(got, want) {
		return fail("compute-disagrees", fmt.Sprintf("Circuit.Compute %s err=%v, truth table %s", gen.FmtInts(got), err, gen.FmtInts(want)))
	}
	if n := o.Par; n != nil {
		const who = "session served at the same time by the same processes: "
		switch {
		case n.GDone && n.GErr != nil:
			return fail("garbler-error", who+n.GErr.Error())
		case n.EDone && n.EErr != nil:
			return fail("evaluator-error", who+n.EErr.Error())
		case !n.GDone || !n.EDone:
			return fail("did-not-terminate", fmt.Sprintf(who+"%v: garbler done=%v evaluator done=%v; unfinished tasks: %v", o.RR.Outcome, n.GDone, n.EDone, o.RR.Blocked))
		case len(n.GOut) != len(circ3.Outputs) || len(n.EOut) != len(circ3.Outputs):
			return fail("output-count", fmt.Sprintf(who+"garbler returned %d values, evaluator %d, circuit declares %d outputs", len(n.GOut), len(n.EOut), len(circ3.Outputs)))
		case !gen.EqualOutputs(n.GOut, n.EOut):
			return fail("parties-disagree", fmt.Sprintf(who+"garbler %s evaluator %s", gen.FmtInts(n.GOut), gen.FmtInts(n.EOut)))
		case !gen.EqualOutputs(n.GOut, want3):
			return fail("wrong-result", fmt.Sprintf(who+"protocol %s, truth table %s", gen.FmtInts(n.GOut), gen.FmtInts(want3)))
		}
	}
	if n := o.Next; n != nil {
		switch {
		case n.GDone && n.GErr != nil:
			return fail("garbler-error", "second session of the process: "+n.GErr.Error())
		case n.EDone && n.EErr != nil:
			return fail("evaluator-error", "second session of the process: "+n.EErr.Error())
		case !n.GDone || !n.EDone:
			return fail("did-not-terminate", fmt.Sprintf("second session of the process: %v: garbler done=%v evaluator done=%v; unfinished tasks: %v", o.RR.Outcome, n.GDone, n.EDone, o.RR.Blocked))
		case !gen.EqualOutputs(n.GOut, n.EOut):
			return fail("parties-disagree", fmt.Sprintf("second session of the process: garbler %s evaluator %s", gen.FmtInts(n.GOut), gen.FmtInts(n.EOut)))
		case !gen.EqualOutputs(n.GOut, want2):
			return fail("wrong-result", fmt.Sprintf("second session of the process: protocol %s, truth table %s", gen.FmtInts(n.GOut), gen.FmtInts(want2)))
		}
	}
	return res
}
