// Package twopc is the simulated two-party world: circuit.Garbler against
// circuit.Evaluator over two p2p.Conn on one simulated pipe. It serves C02
// (correct runs over an arbitrary faithful transport), the whole-circuit part
// of C04 (transcript monitor) and of C16 (corruption in transit).
package twopc

import (
	"fmt"
	"io"
	"math/big"

	"github.com/markkurossi/mpc/circuit"
	"github.com/markkurossi/mpc/env"
	"github.com/markkurossi/mpc/ot"
	"github.com/markkurossi/mpc/p2p"

	"verifsim/gen"
	"verifsim/sim/rt"
	"verifsim/sim/simnet"
	"verifsim/sim/simrand"
	"verifsim/worlds/core"
)

// OT kinds.
const (
	OTCO = iota
	OTCOT
	OTCOTMal
	OTRSA1024
	OTRSA2048
	NumOT
)

// OTNames names the OT kinds.
var OTNames = []string{"CO", "COT", "COT-malicious", "RSA-1024", "RSA-2048"}

// NewOT builds an OT instance of the kind.
func NewOT(kind int, r *simrand.DRBG) ot.OT {
	switch kind {
	case OTCO:
		return ot.NewCO(r)
	case OTCOT:
		return ot.NewCOT(ot.NewCO(r), r, false, false)
	case OTCOTMal:
		return ot.NewCOT(ot.NewCO(r), r, true, false)
	case OTRSA1024:
		return ot.NewRSA(r, 1024)
	case OTRSA2048:
		return ot.NewRSA(r, 2048)
	}
	panic("bad OT kind")
}

// otSpy wraps the garbler's OT and records the wires it is asked to
// transfer: L0 xor L1 of any of them is the garbler's secret offset R.
type otSpy struct {
	ot.OT
	Wires []ot.Wire
}

func (s *otSpy) Send(wires []ot.Wire) error {
	s.Wires = append(s.Wires, wires...)
	return s.OT.Send(wires)
}

// Session describes one protocol session.
type Session struct {
	Circ  *circuit.Circuit
	X, Y  *big.Int
	OT    int
	Pipe  simnet.PipeConfig
	Trace bool
	// GarbleRand, if set, wraps the garbler's randomness source.
	GarbleRand func(io.Reader) io.Reader
	// AbortOnStall: when the session stalls (both parties wait for bytes that
	// will never come), both sockets are closed as an operator would do, and
	// the parties run on to whatever they return.
	AbortOnStall bool
}

// Out is what a session produced.
type Out struct {
	RR           rt.Result
	GOut, EOut   []*big.Int
	GErr, EErr   error
	GDone, EDone bool
	GE, EG       []byte // transcripts per direction (if recorded)
	OTWires      []ot.Wire
	EA, EB       *simnet.Endpoint
	Aborted      bool // the session stalled and was aborted
}

// Run executes one session under the simulator.
func Run(t *rt.Tape, s Session) *Out {
	o := &Out{}
	ea, eb := simnet.Pipe("G", "E", s.Pipe)
	o.EA, o.EB = ea, eb
	spy := &otSpy{OT: NewOT(s.OT, simrand.Stream("G-ot"))}
	otE := NewOT(s.OT, simrand.Stream("E-ot"))
	cfg := &env.Config{Rand: simrand.Stream("G-garble")}
	if s.GarbleRand != nil {
		cfg.Rand = s.GarbleRand(cfg.Rand)
	}
	var onStall func() bool
	if s.AbortOnStall {
		onStall = func() bool {
			if o.Aborted || o.GDone && o.EDone {
				return false // only connection-writer tasks are left
			}
			o.Aborted = true
			ea.Abort()
			eb.Abort()
			return true
		}
	}
	o.RR = rt.Run(rt.Config{Trace: s.Trace, NoProgress: core.NoProgressDefault, OnStall: onStall, OnCrash: func(party string, _ *rt.Task) {
		// a crashed process loses its sockets
		if party == "G" {
			ea.Abort()
		} else if party == "E" {
			eb.Abort()
		}
	}}, t, func() {
		rt.GoParty("G", "garbler", func() {
			conn := p2p.NewConn(ea)
			o.GOut, o.GErr = circuit.Garbler(cfg, conn, spy, s.Circ, s.X, false)
			o.GDone = true
			if o.GErr != nil {
				ea.Abort()
			} else {
				conn.Close()
			}
		})
		rt.GoParty("E", "evaluator", func() {
			conn := p2p.NewConn(eb)
			o.EOut, o.EErr = circuit.Evaluator(conn, otE, s.Circ, s.Y, false)
			o.EDone = true
			if o.EErr != nil {
				eb.Abort()
			} else {
				conn.Close()
			}
		})
	})
	o.GE, o.EG = ea.Sent(), eb.Sent()
	o.OTWires = spy.Wires
	return o
}

// DrawOT draws an OT kind: CO most often, RSA-2048 only in the thorough tier.
func DrawOT(t *rt.Tape, tier string) int {
	switch t.Choose(rt.SGen, 16) {
	case 0, 1, 2, 3, 4, 5, 6:
		return OTCO
	case 7, 8, 9, 10:
		return OTCOT
	case 11, 12, 13:
		return OTCOTMal
	case 14:
		return OTRSA1024
	default:
		if tier == "thorough" && t.Choose(rt.SGen, 4) == 0 {
			return OTRSA2048
		}
		return OTRSA1024
	}
}

// C02 is the world of property C02. Compiled, if set, supplies circuits
// compiled from MPCL programs (with parsed inputs) for a share of the cases.
type C02 struct {
	Tier     string
	Compiled func(t *rt.Tape) (*circuit.Circuit, []*big.Int, string)
}

// Sample is the written-out case of a two-party run.
type Sample struct {
	Circuit string
	X, Y    string
	OT      string
	GE, EG  string
	Faults  []string `json:",omitempty"`
}

// DrawPipe draws the two directions of the pipe.
func DrawPipe(t *rt.Tape) (simnet.PipeConfig, bool) {
	ge, s1 := core.DrawDir(t, core.Caps)
	eg, s2 := core.DrawDir(t, core.Caps)
	return simnet.PipeConfig{AB: ge, BA: eg}, s1 || s2
}

// Run executes one case.
func (w *C02) Run(t *rt.Tape, trace bool) *core.Result {
	res := &core.Result{Reach: map[string]int{}}
	core.BeginRun(t)
	pipe, small := DrawPipe(t)
	opts := gen.CircuitOpts{ZeroWidth: true}
	if w.Tier == "thorough" {
		opts.MaxGates = 1500 // deeper bounds in the thorough tier
		opts.MaxIn = 48
	}
	if small {
		opts.MaxGates = 60
	}
	kind := DrawOT(t, w.Tier)
	if small && (kind == OTRSA1024 || kind == OTRSA2048 || kind == OTCOT || kind == OTCOTMal) && t.Choose(rt.SGen, 4) != 0 {
		kind = OTCO // byte-wise delivery of kilobyte OT messages is slow; keep some
	}
	if !small && kind != OTRSA1024 && kind != OTRSA2048 {
		opts.WideLast = 1100 // evaluator inputs spanning several OT-extension chunks
	}
	circ := gen.Circuit(t, opts)
	in := gen.Inputs(t, circ)
	if w.Compiled != nil && !small && t.Choose(rt.SGen, 5) == 0 {
		// a circuit compiled from an MPCL program (compound and array arguments,
		// multi-output signatures as the compiler produces them)
		if c2, in2, name := w.Compiled(t); c2 != nil && c2.NumGates <= 20000 && (kind == OTCO || kind == OTCOT || kind == OTCOTMal || int(c2.Inputs[1].Type.Bits) <= 16) {
			circ, in = c2, in2
			res.Reach["circuit.compiled-from-mpcl"]++
			res.Class = "compiled:" + name
		}
	}
	res.Sample = Sample{Circuit: gen.Describe(circ), X: in[0].Text(16), Y: in[1].Text(16), OT: OTNames[kind], GE: core.DescribeDir(pipe.AB), EG: core.DescribeDir(pipe.BA)}
	res.Class = "ot=" + OTNames[kind]
	want := gen.Eval(circ, in)

	o := Run(t, Session{Circ: circ, X: in[0], Y: in[1], OT: kind, Pipe: pipe, Trace: trace})
	core.Finish(res, o.RR)
	st := o.EA.Stats
	res.Reach["pipe.short-reads"] += st.ShortReads
	res.Reach["pipe.writer-blocked"] += st.WriterBlocked
	res.Reach["pipe.one-byte-reads"] += st.OneByteReads
	res.Reach["ot."+OTNames[kind]]++
	if len(circ.Outputs) > 1 {
		res.Reach["circuit.multi-output"]++
	}
	for i, a := range circ.Inputs {
		if a.Type.Bits == 0 {
			res.Reach[fmt.Sprintf("circuit.zero-width-argument-of-%s", []string{"garbler", "evaluator"}[i%2])]++
		}
	}
	res.Nontrivial = o.RR.Switches > 2
	if res.Inconclusive != "" {
		return res
	}
	fail := func(clause, detail string) *core.Result {
		res.Fail = &core.Failure{Clause: clause, Detail: detail}
		return res
	}
	if len(o.RR.Crashed) > 0 {
		return fail("panic", core.CrashDetail(o.RR))
	}
	if o.GDone && o.GErr != nil {
		return fail("garbler-error", o.GErr.Error())
	}
	if o.EDone && o.EErr != nil {
		return fail("evaluator-error", o.EErr.Error())
	}
	if !o.GDone || !o.EDone {
		return fail("did-not-terminate", fmt.Sprintf("%v: garbler done=%v evaluator done=%v; unfinished tasks: %v", o.RR.Outcome, o.GDone, o.EDone, o.RR.Blocked))
	}
	if len(o.GOut) != len(circ.Outputs) || len(o.EOut) != len(circ.Outputs) {
		return fail("output-count", fmt.Sprintf("garbler returned %d values, evaluator %d, circuit declares %d outputs", len(o.GOut), len(o.EOut), len(circ.Outputs)))
	}
	if !gen.EqualOutputs(o.GOut, o.EOut) {
		return fail("parties-disagree", fmt.Sprintf("garbler %s evaluator %s", gen.FmtInts(o.GOut), gen.FmtInts(o.EOut)))
	}
	if !gen.EqualOutputs(o.GOut, want) {
		return fail("wrong-result", fmt.Sprintf("protocol %s, truth table %s", gen.FmtInts(o.GOut), gen.FmtInts(want)))
	}
	got, err := circ.Compute(gen.FlattenInputs(circ, in))
	if err != nil || !gen.EqualOutputs(got, want) {
		return fail("compute-disagrees", fmt.Sprintf("Circuit.Compute %s err=%v, truth table %s", gen.FmtInts(got), err, gen.FmtInts(want)))
	}
	return res
}
