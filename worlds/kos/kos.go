// Package kos is the simulated world for C15: the malicious-mode IKNP
// extension (KOS check) with a tamperer on the receiver->sender direction.
package kos

import (
	"fmt"

	"github.com/markkurossi/mpc/ot"

	"verifsim/sim/rt"
	"verifsim/sim/simio"
	"verifsim/sim/simrand"
	"verifsim/worlds/core"
)

func init() {
	core.Register("C15", func(tier string) core.World { return &world{tier: tier} })
}

type world struct{ tier string }

const chunkRows = 512 // rows per extension chunk (behavioural: the receiver sends one data message per chunk)

type flip struct {
	Msg      int // index of the data message within the trial (payload chunks, then the check batch)
	Col, Row int // position in that chunk's matrix
}

type trial struct {
	N           int
	Choices     []bool
	Flips       []flip
	LabelTamper int // 0 none; 1 seed2, 2 x, 3 t0, 4 t1 (challenge response)
	// results
	sent    []ot.Label
	sendErr error
	recv    []ot.Label
	recvErr error
	fired   int
	desc    string
}

var smallNs = []int{1, 2, 7, 8, 9, 15, 16, 17, 63, 64, 65, 127, 128, 129, 511, 512, 513, 600, 1024, 1025}

func drawTrial(t *rt.Tape, r *simrand.DRBG, exhaustiveIdx int) *trial {
	tr := &trial{}
	tr.N = smallNs[t.Choose(rt.SGen, len(smallNs))]
	if t.Choose(rt.SGen, 12) == 0 {
		// many chunks in one call (anything the sender keeps in flight per chunk wraps around)
		tr.N = []int{2047, 2048, 2049, 2560, 3000, 4096, 4097, 5121}[t.Choose(rt.SGen, 8)]
	}
	tr.Choices = make([]bool, tr.N)
	switch t.Choose(rt.SGen, 4) {
	case 0:
	case 1:
		for i := range tr.Choices {
			tr.Choices[i] = true
		}
	default:
		buf := make([]byte, (tr.N+7)/8)
		r.Read(buf)
		for i := range tr.Choices {
			tr.Choices[i] = buf[i/8]>>(i%8)&1 == 1
		}
	}
	payloadChunks := (tr.N + chunkRows - 1) / chunkRows
	rowsOf := func(msg int) int {
		if msg < payloadChunks {
			rows := tr.N - msg*chunkRows
			if rows > chunkRows {
				rows = chunkRows
			}
			return (rows + 7) / 8 * 8 // incl. padding rows of the last byte
		}
		return 256
	}
	mode := t.Choose(rt.SFault, 11)
	switch mode {
	case 10: // structured pair across the batches: the same column at payload row r and at check-batch row r (or r mod 256)
		c := t.Choose(rt.SFault, 128)
		m := t.Choose(rt.SFault, payloadChunks)
		r := t.Choose(rt.SFault, rowsOf(m))
		r2 := (m*chunkRows + r) % 256
		if t.Choose(rt.SFault, 4) == 0 {
			r2 = t.Choose(rt.SFault, 256)
		}
		tr.Flips = []flip{{Msg: m, Col: c, Row: r}, {Msg: payloadChunks, Col: c, Row: r2}}
	case 8, 9: // structured pair: the same column at rows r and r+d, or the same row in two columns
		m := t.Choose(rt.SFault, payloadChunks)
		rows := rowsOf(m)
		c := t.Choose(rt.SFault, 128)
		r := t.Choose(rt.SFault, rows)
		if mode == 8 {
			d := []int{1, 8, 64, 128, 256, 512, 1024}[t.Choose(rt.SFault, 7)]
			m2, r2 := m, r+d
			for m2 < payloadChunks && r2 >= rowsOf(m2) { // the partner row may lie in a later chunk
				r2 -= chunkRows
				m2++
			}
			if m2 < payloadChunks && r2 >= 0 && r2 < rowsOf(m2) {
				tr.Flips = []flip{{Msg: m, Col: c, Row: r}, {Msg: m2, Col: c, Row: r2}}
			} else {
				tr.Flips = []flip{{Msg: m, Col: c, Row: r}}
			}
		} else {
			tr.Flips = []flip{{Msg: m, Col: c, Row: r}, {Msg: m, Col: (c + 1 + t.Choose(rt.SFault, 127)) % 128, Row: r}}
		}
	case 0: // honest
		tr.desc = "honest"
	case 1, 2, 3: // single flip in the payload batch
		m := t.Choose(rt.SFault, payloadChunks)
		tr.Flips = []flip{{Msg: m, Col: t.Choose(rt.SFault, 128), Row: t.Choose(rt.SFault, rowsOf(m))}}
	case 4: // single flip in the 256-row check batch
		tr.Flips = []flip{{Msg: payloadChunks, Col: t.Choose(rt.SFault, 128), Row: t.Choose(rt.SFault, 256)}}
	case 5, 6: // 2..8 simultaneous flips anywhere
		k := 2 + t.Choose(rt.SFault, 7)
		for i := 0; i < k; i++ {
			m := t.Choose(rt.SFault, payloadChunks+1)
			tr.Flips = append(tr.Flips, flip{Msg: m, Col: t.Choose(rt.SFault, 128), Row: t.Choose(rt.SFault, rowsOf(m))})
		}
	case 7: // alteration of the challenge response alone, or together with a flip
		tr.LabelTamper = 1 + t.Choose(rt.SFault, 4)
		if t.Choose(rt.SFault, 2) == 1 {
			m := t.Choose(rt.SFault, payloadChunks+1)
			tr.Flips = []flip{{Msg: m, Col: t.Choose(rt.SFault, 128), Row: t.Choose(rt.SFault, rowsOf(m))}}
		}
	}
	if tr.desc == "" {
		tr.desc = fmt.Sprintf("flips=%v challenge-response-field=%d", tr.Flips, tr.LabelTamper)
	}
	return tr
}

// dirtyLabels is the receiver's result slice: in half of the calls a buffer the caller has used
// before (non-zero labels), as an application that keeps one result buffer would pass it.
func dirtyLabels(n int) []ot.Label {
	out := make([]ot.Label, n)
	if rt.Active() && rt.Choose(rt.SGen, 2) == 0 {
		r := simrand.Stream("dirty")
		for i := range out {
			out[i], _ = ot.NewLabel(r)
		}
		rt.Reach("receive.result-buffer-reused-by-the-caller")
	}
	return out
}

type sample struct {
	Trials []string
	Base   string
}

func (w *world) Run(t *rt.Tape, trace bool) *core.Result {
	res := &core.Result{Faults: map[string]int{}, Reach: map[string]int{}}
	core.BeginRun(t)
	if t.Choose(rt.SGen, 5) == 0 {
		return w.runCOT(t, trace, res)
	}
	rS, rR, rH := simrand.Stream("S"), simrand.Stream("R"), simrand.Stream("harness")
	nTrials := 8 + t.Choose(rt.SGen, 40)
	var trials []*trial
	smp := sample{Base: "stub base OT (labels in clear)"}
	if t.Choose(rt.SGen, 4) == 0 {
		// dense enumeration: every row of one column of the payload matrix (and of
		// the check batch) for one small batch size, one flip per trial
		n := []int{1, 8, 9, 64}[t.Choose(rt.SGen, 4)]
		col := t.Choose(rt.SGen, 128)
		base := drawTrial(t, rH, 0)
		rows := (n + 7) / 8 * 8
		for r := 0; r < rows+256; r++ {
			tr := &trial{N: n, Choices: make([]bool, n)}
			for i := range tr.Choices {
				tr.Choices[i] = base.Choices[i%len(base.Choices)]
			}
			if r < rows {
				tr.Flips = []flip{{Msg: 0, Col: col, Row: r}}
			} else {
				tr.Flips = []flip{{Msg: 1, Col: col, Row: r - rows}}
			}
			tr.desc = fmt.Sprintf("flips=%v (dense column %d)", tr.Flips, col)
			trials = append(trials, tr)
		}
		nTrials = len(trials)
		res.Reach["dense-column-enumerations"]++
	} else {
		trials = make([]*trial, nTrials)
		for i := range trials {
			trials[i] = drawTrial(t, rH, i)
		}
	}
	for i := 0; i < len(trials) && i < 6; i++ {
		smp.Trials = append(smp.Trials, fmt.Sprintf("n=%d %s", trials[i].N, trials[i].desc))
	}
	res.Sample = smp
	realBase := t.Choose(rt.SGen, 16) == 0
	if realBase {
		smp.Base = "real Chou-Orlandi base OTs"
		res.Sample = smp
	}

	var delta ot.Label
	var setupErr error
	var sDone, rDone bool
	cur := -1    // trial the receiver is in
	msgBase := 0 // receiver's message counter at the start of the trial

	rr := rt.Run(rt.Config{Trace: trace, NoProgress: core.NoProgressDefault}, t, func() {
		es, er := simio.Pair("S", "R")
		er.Tamper = func(idx int, m *simio.Msg) {
			if cur < 0 {
				return
			}
			tr := trials[cur]
			k := idx - msgBase
			payloadChunks := (tr.N + chunkRows - 1) / chunkRows
			if m.Kind == simio.KData {
				for _, f := range tr.Flips {
					if f.Msg != k {
						continue
					}
					byteRows := len(m.Data) / 128
					pos := f.Col*byteRows + f.Row/8
					if byteRows == 0 || f.Row/8 >= byteRows || pos >= len(m.Data) {
						continue
					}
					m.Data[pos] ^= 1 << (f.Row % 8)
					tr.fired++
					if k < payloadChunks {
						res.Faults["flip-payload-matrix"]++
					} else {
						res.Faults["flip-check-matrix"]++
					}
				}
			} else if m.Kind == simio.KLabel && tr.LabelTamper > 0 {
				// labels of the trial: seed2, x, t0, t1 in this order
				li := k - (payloadChunks + 1)
				if li == tr.LabelTamper-1 {
					m.L.D1 ^= 0x10
					tr.fired++
					res.Faults["alter-challenge-response"]++
				}
			}
		}
		rt.GoParty("S", "sender", func() {
			var base ot.OT = &simio.ClearOT{}
			if realBase {
				base = ot.NewCO(rS)
			}
			if setupErr = base.InitReceiver(es); setupErr != nil {
				return
			}
			s, err := ot.NewIKNPSender(base, es, rS, nil)
			if err != nil {
				setupErr = err
				return
			}
			delta = s.Delta
			for _, tr := range trials {
				tr.sent, tr.sendErr = s.Send(tr.N, true)
			}
			sDone = true
		})
		rt.GoParty("R", "receiver", func() {
			var base ot.OT = &simio.ClearOT{}
			if realBase {
				base = ot.NewCO(rR)
			}
			if err := base.InitSender(er); err != nil {
				setupErr = err
				return
			}
			r, err := ot.NewIKNPReceiver(base, er, rR)
			if err != nil {
				setupErr = err
				return
			}
			for i, tr := range trials {
				cur, msgBase = i, er.SentN
				tr.recv = dirtyLabels(tr.N)
				tr.recvErr = r.Receive(tr.Choices, tr.recv, true)
			}
			cur = -1
			rDone = true
		})
	})
	core.Finish(res, rr)
	res.Nontrivial = true
	if res.Inconclusive != "" {
		return res
	}
	fail := func(clause, detail string) *core.Result {
		res.Fail = &core.Failure{Clause: clause, Detail: detail}
		return res
	}
	if len(rr.Crashed) > 0 {
		return fail("panic", core.CrashDetail(rr))
	}
	if setupErr != nil {
		return fail("setup-error", setupErr.Error())
	}
	if !sDone || !rDone {
		return fail("did-not-terminate", fmt.Sprintf("%v: sender done=%v receiver done=%v; %v", rr.Outcome, sDone, rDone, rr.Blocked))
	}
	for i, tr := range trials {
		if tr.recvErr != nil {
			return fail("receiver-error", fmt.Sprintf("trial %d (n=%d %s): %v", i, tr.N, tr.desc, tr.recvErr))
		}
		tampered := tr.fired > 0
		if tr.sendErr != nil {
			if !tampered {
				return fail("honest-abort", fmt.Sprintf("trial %d (n=%d) had no alteration but the sender aborted: %v", i, tr.N, tr.sendErr))
			}
			res.Reach["sender-aborted-on-tampering"]++
			continue
		}
		// accepted: the correlation must hold for the receiver's original choices
		if len(tr.sent) != tr.N {
			return fail("accepted-inconsistent", fmt.Sprintf("trial %d: Send(%d) returned %d labels", i, tr.N, len(tr.sent)))
		}
		for j := 0; j < tr.N; j++ {
			want := tr.sent[j]
			if tr.Choices[j] {
				want.Xor(delta)
			}
			if !tr.recv[j].Equal(want) {
				return fail("accepted-inconsistent", fmt.Sprintf("trial %d (n=%d %s): the sender accepted, but at position %d the receiver's label %v != sent xor choice*Delta %v", i, tr.N, tr.desc, j, tr.recv[j], want))
			}
		}
		if tampered {
			res.Reach["accepted-with-intact-correlation(unselected column or padding row or response-only)"]++
		} else {
			res.Reach["honest-accepted"]++
		}
	}
	return res
}

// runCOT is the same deviation one layer up, where the malicious option is
// set: a pair of ot.COT instances created with malicious = true serves several
// Send/Receive batches; the batches before the last are honest, the last one
// carries the alterations of the receiver's extension matrix. The sender
// must abort that batch or deliver, for every position, exactly the label
// the receiver's original choice selects.
func (w *world) runCOT(t *rt.Tape, trace bool, res *core.Result) *core.Result {
	rS, rR, rH := simrand.Stream("S"), simrand.Stream("R"), simrand.Stream("harness")
	nb := 1 + t.Choose(rt.SGen, 4)
	batches := make([]*trial, nb)
	wires := make([][]ot.Wire, nb)
	for i := range batches {
		batches[i] = drawTrial(t, rH, i)
		if i < nb-1 {
			batches[i].Flips, batches[i].LabelTamper, batches[i].desc = nil, 0, "honest"
		}
		wires[i] = make([]ot.Wire, batches[i].N)
		for j := range wires[i] {
			l0, _ := ot.NewLabel(rH)
			l1, _ := ot.NewLabel(rH)
			wires[i][j] = ot.Wire{L0: l0, L1: l1}
		}
	}
	realBase := t.Choose(rt.SGen, 8) == 0
	smp := sample{Base: "COT(malicious) over a stub base OT"}
	if realBase {
		smp.Base = "COT(malicious) over real Chou-Orlandi base OTs"
	}
	for i, b := range batches {
		smp.Trials = append(smp.Trials, fmt.Sprintf("batch %d: n=%d %s", i, b.N, b.desc))
	}
	res.Sample = smp
	res.Class = "cot-session"
	res.Reach["mode.cot-session"]++

	var setupErr error
	sBatches, rBatches := 0, 0 // completed calls
	cur, msgBase := -1, 0
	rr := rt.Run(rt.Config{Trace: trace, NoProgress: core.NoProgressDefault}, t, func() {
		es, er := simio.Pair("S", "R")
		er.Tamper = func(idx int, m *simio.Msg) {
			if cur < 0 {
				return
			}
			tr := batches[cur]
			k := idx - msgBase
			payloadChunks := (tr.N + chunkRows - 1) / chunkRows
			if m.Kind == simio.KData {
				for _, f := range tr.Flips {
					if f.Msg != k {
						continue
					}
					byteRows := len(m.Data) / 128
					pos := f.Col*byteRows + f.Row/8
					if byteRows == 0 || f.Row/8 >= byteRows || pos >= len(m.Data) {
						continue
					}
					m.Data[pos] ^= 1 << (f.Row % 8)
					tr.fired++
					res.Faults["flip-matrix-of-a-cot-batch"]++
				}
			} else if m.Kind == simio.KLabel && tr.LabelTamper > 0 {
				if k-(payloadChunks+1) == tr.LabelTamper-1 {
					m.L.D1 ^= 0x10
					tr.fired++
					res.Faults["alter-challenge-response"]++
				}
			}
		}
		rt.GoParty("S", "cot-sender", func() {
			var base ot.OT = &simio.ClearOT{}
			if realBase {
				base = ot.NewCO(rS)
			}
			c := ot.NewCOT(base, rS, true, false)
			if setupErr = c.InitSender(es); setupErr != nil {
				es.Close()
				return
			}
			for i, tr := range batches {
				tr.sendErr = c.Send(wires[i])
				sBatches++
				if tr.sendErr != nil {
					break
				}
			}
			es.Close() // the session ends: a receiver still waiting gets an error
		})
		rt.GoParty("R", "cot-receiver", func() {
			var base ot.OT = &simio.ClearOT{}
			if realBase {
				base = ot.NewCO(rR)
			}
			c := ot.NewCOT(base, rR, true, false)
			if err := c.InitReceiver(er); err != nil {
				setupErr = err
				return
			}
			for i, tr := range batches {
				cur, msgBase = i, er.SentN
				tr.recv = dirtyLabels(tr.N)
				tr.recvErr = c.Receive(tr.Choices, tr.recv)
				rBatches++
				if tr.recvErr != nil {
					break
				}
			}
			cur = -1
		})
	})
	core.Finish(res, rr)
	res.Nontrivial = true
	if res.Inconclusive != "" {
		return res
	}
	fail := func(clause, detail string) *core.Result {
		res.Fail = &core.Failure{Clause: clause, Detail: detail}
		return res
	}
	if len(rr.Crashed) > 0 {
		return fail("panic", core.CrashDetail(rr))
	}
	if setupErr != nil {
		return fail("setup-error", setupErr.Error())
	}
	for i, tr := range batches {
		if i >= sBatches {
			return fail("did-not-terminate", fmt.Sprintf("COT session: the sender never finished batch %d of %d (%v; %v)", i, len(batches), rr.Outcome, rr.Blocked))
		}
		tampered := tr.fired > 0
		if tr.sendErr != nil {
			if !tampered {
				return fail("honest-abort", fmt.Sprintf("COT session: batch %d (n=%d) had no alteration but the sender aborted: %v", i, tr.N, tr.sendErr))
			}
			res.Reach["cot-sender-aborted-on-tampering"]++
			return res
		}
		// the sender accepted batch i
		if i >= rBatches || tr.recvErr != nil {
			if tampered {
				// e.g. the challenge response was altered towards the receiver's own failure
				res.Reach["cot-receiver-failed-on-tampered-batch"]++
				return res
			}
			return fail("receiver-error", fmt.Sprintf("COT session: honest batch %d (n=%d): receiver err=%v finished=%v (%v)", i, tr.N, tr.recvErr, i < rBatches, rr.Outcome))
		}
		for j := 0; j < tr.N; j++ {
			want := wires[i][j].L0
			if tr.Choices[j] {
				want = wires[i][j].L1
			}
			if !tr.recv[j].Equal(want) {
				return fail("accepted-inconsistent", fmt.Sprintf("COT session (malicious option on), batch %d of %d (n=%d %s): the sender accepted, but at position %d the receiver holds %v, not the label %v its original choice %v selects", i, len(batches), tr.N, tr.desc, j, tr.recv[j], want, tr.Choices[j]))
			}
		}
		if tampered {
			res.Reach["cot-accepted-with-correct-labels(unselected column or padding row)"]++
		} else {
			res.Reach["cot-honest-batch-accepted"]++
		}
	}
	return res
}
