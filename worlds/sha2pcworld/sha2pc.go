// Package sha2pcworld is the simulated world for C18 (and the sha2pc part of
// C04): the four-round SHA256(XOR) protocol between two "processes" that
// persist their session on a simulated disk, exchange encoded messages over a
// simulated pipe and may crash and restart between any two rounds.
package sha2pcworld

import (
	"bytes"
	"crypto/elliptic"
	"crypto/sha256"
	"encoding/binary"
	"errors"
	"fmt"
	"io"
	"runtime/debug"
	"strings"
	"time"

	"github.com/markkurossi/mpc/ot"
	"github.com/markkurossi/mpc/sha2pc"

	"verifsim/sim/rt"
	"verifsim/sim/simdisk"
	"verifsim/sim/simnet"
	"verifsim/sim/simrand"
	"verifsim/worlds/core"
)

func init() {
	core.Register("C18", func(tier string) core.World { return &world{tier: tier} })
}

type world struct{ tier string }

// Curves are the supported curves.
var Curves = []elliptic.Curve{elliptic.P256(), elliptic.P224(), elliptic.P384(), elliptic.P521()}

// DrawCurve draws a curve: P-256 most often, P-521 rarely (it is slow).
func DrawCurve(t *rt.Tape) elliptic.Curve {
	switch k := t.Choose(rt.SGen, 32); {
	case k < 22:
		return Curves[0]
	case k < 27:
		return Curves[1]
	case k < 31:
		return Curves[2]
	default:
		return Curves[3]
	}
}

// DrawInput draws a 32-byte input.
func DrawInput(t *rt.Tape, r io.Reader) (v [32]byte) {
	switch t.Choose(rt.SGen, 4) {
	case 0:
	case 1:
		for i := range v {
			v[i] = 0xff
		}
	default:
		r.Read(v[:])
	}
	return
}

// Session holds everything one complete honest session produced.
type Session struct {
	Curve              elliptic.Curve
	A, B               [32]byte
	M1, M2, M3, GS, ES []byte
	Msg3               sha2pc.Round3Payload
	Digest             [32]byte
	Err                string
	Panic              string
}

func safe(what string, f func() error) (err error) {
	defer func() {
		if r := recover(); r != nil {
			if _, big := r.(rt.AllocTooLarge); big {
				// a giant allocation is resource exhaustion, not a crash the
				// property speaks about; counted, never a verdict
				rt.Reach("alloc.refused")
				err = fmt.Errorf("allocation refused by the simulated machine: %v", r)
				return
			}
			err = fmt.Errorf("PANIC in %s: %v\n%s", what, r, debug.Stack())
		}
	}()
	return f()
}

func isPanic(err error) bool {
	return err != nil && len(err.Error()) > 5 && err.Error()[:5] == "PANIC"
}

// Honest runs a complete session in-line (no restarts), re-encoding
// everything and checking encode/decode identity on the way.
func Honest(curve elliptic.Curve, a, b [32]byte, rG, rE io.Reader) (*Session, *core.Failure) {
	s := &Session{Curve: curve, A: a, B: b}
	fail := func(clause, detail string) (*Session, *core.Failure) {
		return s, &core.Failure{Clause: clause, Detail: detail}
	}
	m1, gs, err := sha2pc.GarblerRound1(rG, curve)
	if err != nil {
		return fail("round-error", "GarblerRound1: "+err.Error())
	}
	if s.M1, err = sha2pc.EncodeRound1(curve, m1); err != nil {
		return fail("encode-error", "EncodeRound1: "+err.Error())
	}
	if s.GS, err = sha2pc.EncodeGarblerSession(curve, gs); err != nil {
		return fail("encode-error", "EncodeGarblerSession: "+err.Error())
	}
	d1, err := sha2pc.DecodeRound1(curve, s.M1)
	if err != nil {
		return fail("decode-error", "DecodeRound1 of a valid encoding: "+err.Error())
	}
	if re, _ := sha2pc.EncodeRound1(curve, d1); !bytes.Equal(re, s.M1) {
		return fail("encoding-not-canonical", "Round1: encode(decode(x)) != x")
	}
	gs2, err := sha2pc.DecodeGarblerSession(curve, s.GS)
	if err != nil {
		return fail("decode-error", "DecodeGarblerSession of a valid encoding: "+err.Error())
	}
	if re, _ := sha2pc.EncodeGarblerSession(curve, gs2); !bytes.Equal(re, s.GS) {
		return fail("encoding-not-canonical", "GarblerSession: encode(decode(x)) != x")
	}
	m2, es, err := sha2pc.EvaluatorRound2(rE, curve, d1, b)
	if err != nil {
		return fail("round-error", "EvaluatorRound2: "+err.Error())
	}
	if s.M2, err = sha2pc.EncodeRound2(curve, m2); err != nil {
		return fail("encode-error", "EncodeRound2: "+err.Error())
	}
	if s.ES, err = sha2pc.EncodeEvaluatorSession(curve, es); err != nil {
		return fail("encode-error", "EncodeEvaluatorSession: "+err.Error())
	}
	d2, err := sha2pc.DecodeRound2(curve, s.M2)
	if err != nil {
		return fail("decode-error", "DecodeRound2 of a valid encoding: "+err.Error())
	}
	if re, _ := sha2pc.EncodeRound2(curve, d2); !bytes.Equal(re, s.M2) {
		return fail("encoding-not-canonical", "Round2: encode(decode(x)) != x")
	}
	es2, err := sha2pc.DecodeEvaluatorSession(curve, s.ES)
	if err != nil {
		return fail("decode-error", "DecodeEvaluatorSession of a valid encoding: "+err.Error())
	}
	if re, _ := sha2pc.EncodeEvaluatorSession(curve, es2); !bytes.Equal(re, s.ES) {
		return fail("encoding-not-canonical", "EvaluatorSession: encode(decode(x)) != x")
	}
	m3, err := sha2pc.GarblerRound3(rG, curve, gs2, a, d2)
	if err != nil {
		return fail("round-error", "GarblerRound3: "+err.Error())
	}
	s.Msg3 = m3
	if s.M3, err = sha2pc.EncodeRound3(m3); err != nil {
		return fail("encode-error", "EncodeRound3: "+err.Error())
	}
	d3, err := sha2pc.DecodeRound3(s.M3)
	if err != nil {
		return fail("decode-error", "DecodeRound3 of a valid encoding: "+err.Error())
	}
	if re, _ := sha2pc.EncodeRound3(d3); !bytes.Equal(re, s.M3) {
		return fail("encoding-not-canonical", "Round3: encode(decode(x)) != x")
	}
	s.Digest, err = sha2pc.EvaluatorRound4(curve, es2, d3)
	if err != nil {
		return fail("round-error", "EvaluatorRound4: "+err.Error())
	}
	return s, nil
}

func want(a, b [32]byte) [32]byte {
	var x [32]byte
	for i := range x {
		x[i] = a[i] ^ b[i]
	}
	return sha256.Sum256(x[:])
}

// framing over the raw pipe
func sendMsg(w io.Writer, b []byte) error {
	var hdr [4]byte
	binary.BigEndian.PutUint32(hdr[:], uint32(len(b)))
	if _, err := w.Write(hdr[:]); err != nil {
		return err
	}
	_, err := w.Write(b)
	return err
}

func recvMsg(r io.Reader) ([]byte, error) {
	var hdr [4]byte
	if _, err := io.ReadFull(r, hdr[:]); err != nil {
		return nil, err
	}
	n := binary.BigEndian.Uint32(hdr[:])
	if n > 8<<20 {
		return nil, fmt.Errorf("frame too large: %d", n)
	}
	b := make([]byte, n)
	_, err := io.ReadFull(r, b)
	return b, err
}

type sample struct {
	Mode     string
	Curve    string
	A, B     string `json:",omitempty"`
	Restarts string `json:",omitempty"`
	Pipe     string `json:",omitempty"`
	Detail   string `json:",omitempty"`
}

var restartNames = []string{"G after round 1 (session persisted)", "G after receiving round 2", "E after receiving round 1", "E after round 2 (session persisted)", "E after receiving round 3"}

func (w *world) Run(t *rt.Tape, trace bool) *core.Result {
	res := &core.Result{Reach: map[string]int{}, Faults: map[string]int{}}
	core.BeginRun(t)
	curve := DrawCurve(t)
	rH := simrand.Stream("harness")
	a, b := DrawInput(t, rH), DrawInput(t, rH)
	mode := []int{0, 0, 0, 1, 2, 2}[t.Choose(rt.SGen, 6)]
	smp := sample{Curve: curve.Params().Name, A: fmt.Sprintf("%x", a), B: fmt.Sprintf("%x", b)}
	res.Class = fmt.Sprintf("mode=%d curve=%s", mode, smp.Curve)
	res.Reach["curve."+smp.Curve]++
	var failure *core.Failure
	switch mode {
	case 0:
		failure = w.protocol(t, trace, res, &smp, curve, a, b)
	case 1:
		failure = w.mixing(t, trace, res, &smp, curve, a, b)
	case 2:
		failure = w.mutations(t, trace, res, &smp, curve, a, b)
	}
	res.Sample = smp
	res.Fail = failure
	res.Nontrivial = true
	return res
}

// protocol: garbler and evaluator processes, disk, pipe, restart pattern. In a
// third of the cases the garbler process and the evaluator process each serve
// two protocol sessions at once (two tasks per process sharing the package's
// circuit and its scratch pool), interleaved by the scheduler between any two
// steps - a server handling two clients.
// failingReader delivers left bytes and then fails: an entropy source with a transient error.
type failingReader struct {
	r    io.Reader
	left int
}

var errEntropy = errors.New("simrand: entropy source failed")

func (f *failingReader) Read(p []byte) (int, error) {
	if f.left <= 0 {
		return 0, errEntropy
	}
	if len(p) > f.left {
		p = p[:f.left]
	}
	n, err := f.r.Read(p)
	f.left -= n
	return n, err
}

func (w *world) protocol(t *rt.Tape, trace bool, res *core.Result, smp *sample, curve elliptic.Curve, a, b [32]byte) *core.Failure {
	smp.Mode = "protocol with crash/restart pattern"
	nSess := 1
	if t.Choose(rt.SGen, 3) == 0 {
		nSess = 2
		smp.Mode += ", two interleaved sessions per process"
		res.Reach["protocol.two-interleaved-sessions"]++
	}
	ge, _ := core.DrawDir(t, core.Caps)
	eg, _ := core.DrawDir(t, core.Caps)
	for _, d := range []*simnet.DirConfig{&ge, &eg} {
		if d.Frag == simnet.FragOne || d.Frag == simnet.FragField {
			d.Frag = simnet.FragRandom // 700 KB of round 3 byte by byte adds nothing
		}
		if d.Cap >= 0 && d.Cap < 4096 && d.Cap != 0 {
			d.Cap = 4096
		}
	}
	smp.Pipe = core.DescribeDir(ge) + " / " + core.DescribeDir(eg)
	type sess struct {
		pattern      int
		a, b         [32]byte
		gErr, eErr   error
		digest       [32]byte
		gDone, eDone bool
		restarts     string
		sameRand     bool // the evaluator's randomness source yields the same bytes as the garbler's
		entropyFail  int  // >= 0: the first attempt at round 3 gets a randomness source that fails after that many bytes; the garbler then tries again
	}
	rH := simrand.Stream("harness2")
	ss := make([]*sess, nSess)
	for i := range ss {
		x := &sess{pattern: t.Choose(rt.SFault, 32), a: a, b: b, entropyFail: -1}
		if t.Choose(rt.SFault, 5) == 0 {
			x.entropyFail = t.Choose(rt.SFault, 9000)
		}
		if t.Choose(rt.SGen, 30) == 0 {
			x.sameRand = true
			res.Reach["randomness.both-parties-draw-the-same-bytes"]++
		}
		if t.Choose(rt.SFault, 8) == 0 {
			x.pattern = 31
		}
		if i > 0 {
			x.a, x.b = DrawInput(t, rH), DrawInput(t, rH)
		}
		for k, n := range restartNames {
			if x.pattern>>k&1 == 1 {
				x.restarts += n + "; "
				res.Faults["restart: "+n]++
			}
		}
		smp.Restarts += fmt.Sprintf("[session %d: %s] ", i, x.restarts)
		ss[i] = x
	}
	downtime := func() { rt.Sleep(time.Duration(1+rt.Choose(rt.SFault, 50)) * time.Millisecond) }
	stall := func() {
		if rt.Choose(rt.SFault, 2) == 1 {
			res.Faults["stall between producing and serialising a message"]++
			rt.Sleep(time.Duration(1+rt.Choose(rt.SFault, 200)) * time.Millisecond)
		} else {
			rt.Yield()
		}
	}

	rr := rt.Run(rt.Config{Trace: trace, NoProgress: core.NoProgressDefault}, t, func() {
		for i, x := range ss {
			i, x := i, x
			pattern := x.pattern
			ea, eb := simnet.Pipe(fmt.Sprintf("G%d", i), fmt.Sprintf("E%d", i), simnet.PipeConfig{AB: ge, BA: eg})
			diskG, diskE := simdisk.New(), simdisk.New()
			rt.GoParty("G", fmt.Sprintf("garbler-session-%d", i), func() {
				defer func() {
					if !rt.Unwinding() { // blocked tasks are unwound at the end of a run
						x.gDone = true
						ea.Close()
					}
				}()
				x.gErr = safe("garbler", func() error {
					rng := simrand.Stream(fmt.Sprintf("G%d#0", i))
					m1, gs, err := sha2pc.GarblerRound1(rng, curve)
					if err != nil {
						return err
					}
					rt.Yield()
					enc, err := sha2pc.EncodeGarblerSession(curve, gs)
					if err != nil {
						return err
					}
					diskG.Write("session", enc)
					diskG.Sync("session")
					b1, err := sha2pc.EncodeRound1(curve, m1)
					if err != nil {
						return err
					}
					if err := sendMsg(ea, b1); err != nil {
						return err
					}
					if pattern&1 != 0 { // crash: only the disk survives
						gs = nil
						diskG.Crash(0)
						downtime()
						rng = simrand.Stream(fmt.Sprintf("G%d#1", i))
						raw, err := diskG.Read("session")
						if err != nil {
							return err
						}
						if gs, err = sha2pc.DecodeGarblerSession(curve, raw); err != nil {
							return fmt.Errorf("restart: DecodeGarblerSession: %w", err)
						}
					}
					b2, err := recvMsg(ea)
					if err != nil {
						return err
					}
					diskG.Write("msg2", b2)
					diskG.Sync("msg2")
					if pattern&2 != 0 {
						gs, b2 = nil, nil
						diskG.Crash(0)
						downtime()
						rng = simrand.Stream(fmt.Sprintf("G%d#2", i))
						raw, err := diskG.Read("session")
						if err != nil {
							return err
						}
						if gs, err = sha2pc.DecodeGarblerSession(curve, raw); err != nil {
							return fmt.Errorf("restart: DecodeGarblerSession: %w", err)
						}
						if b2, err = diskG.Read("msg2"); err != nil {
							return err
						}
					}
					m2, err := sha2pc.DecodeRound2(curve, b2)
					if err != nil {
						return err
					}
					if x.entropyFail >= 0 {
						// fail, then carry on: the entropy source fails once in the middle of round 3
						// (a read error from the OS); the server tries the round again
						_, ferr := sha2pc.GarblerRound3(&failingReader{r: rng, left: x.entropyFail}, curve, gs, x.a, m2)
						if ferr != nil {
							rt.Reach("fail-then-carry-on.round3-failed-for-lack-of-randomness")
						}
					}
					m3, err := sha2pc.GarblerRound3(rng, curve, gs, x.a, m2)
					if err != nil {
						return err
					}
					// a server may handle another session between producing a
					// message and serialising it (stall of tape-chosen length)
					stall()
					b3, err := sha2pc.EncodeRound3(m3)
					if err != nil {
						return err
					}
					return sendMsg(ea, b3)
				})
			})
			rt.GoParty("E", fmt.Sprintf("evaluator-session-%d", i), func() {
				defer func() {
					if !rt.Unwinding() {
						x.eDone = true
						eb.Close()
					}
				}()
				x.eErr = safe("evaluator", func() error {
					rng := simrand.Stream(fmt.Sprintf("E%d#0", i))
					if x.sameRand {
						// both parties draw the same random bytes (machines cloned from one image, a
						// demo with one fixed seed): the protocol must still compute the digest
						rng = simrand.Twin(fmt.Sprintf("G%d#0", i))
					}
					b1, err := recvMsg(eb)
					if err != nil {
						return err
					}
					diskE.Write("msg1", b1)
					diskE.Sync("msg1")
					if pattern&4 != 0 {
						b1 = nil
						diskE.Crash(0)
						downtime()
						rng = simrand.Stream(fmt.Sprintf("E%d#1", i))
						if b1, err = diskE.Read("msg1"); err != nil {
							return err
						}
					}
					m1, err := sha2pc.DecodeRound1(curve, b1)
					if err != nil {
						return err
					}
					m2, es, err := sha2pc.EvaluatorRound2(rng, curve, m1, x.b)
					if err != nil {
						return err
					}
					rt.Yield()
					enc, err := sha2pc.EncodeEvaluatorSession(curve, es)
					if err != nil {
						return err
					}
					diskE.Write("session", enc)
					diskE.Sync("session")
					b2, err := sha2pc.EncodeRound2(curve, m2)
					if err != nil {
						return err
					}
					if err := sendMsg(eb, b2); err != nil {
						return err
					}
					reload := func(stream string) error {
						es = nil
						diskE.Crash(0)
						downtime()
						rng = simrand.Stream(stream)
						raw, err := diskE.Read("session")
						if err != nil {
							return err
						}
						if es, err = sha2pc.DecodeEvaluatorSession(curve, raw); err != nil {
							return fmt.Errorf("restart: DecodeEvaluatorSession: %w", err)
						}
						return nil
					}
					if pattern&8 != 0 {
						if err := reload(fmt.Sprintf("E%d#2", i)); err != nil {
							return err
						}
					}
					b3, err := recvMsg(eb)
					if err != nil {
						return err
					}
					diskE.Write("msg3", b3)
					diskE.Sync("msg3")
					if pattern&16 != 0 {
						b3 = nil
						if err := reload(fmt.Sprintf("E%d#3", i)); err != nil {
							return err
						}
						if b3, err = diskE.Read("msg3"); err != nil {
							return err
						}
					}
					m3, err := sha2pc.DecodeRound3(b3)
					if err != nil {
						return err
					}
					rt.Yield()
					x.digest, err = sha2pc.EvaluatorRound4(curve, es, m3)
					return err
				})
			})
		}
	})
	core.Finish(res, rr)
	if res.Inconclusive != "" {
		return nil
	}
	if len(rr.Crashed) > 0 {
		return &core.Failure{Clause: "panic", Detail: core.CrashDetail(rr)}
	}
	for i, x := range ss {
		for _, e := range []error{x.gErr, x.eErr} {
			if isPanic(e) {
				return &core.Failure{Clause: "panic", Detail: e.Error()}
			}
		}
		if x.gErr != nil {
			return &core.Failure{Clause: "protocol-error", Detail: fmt.Sprintf("session %d of %d, garbler (restarts: %s): %v", i, nSess, x.restarts, x.gErr)}
		}
		if x.eErr != nil {
			return &core.Failure{Clause: "protocol-error", Detail: fmt.Sprintf("session %d of %d, evaluator (restarts: %s): %v", i, nSess, x.restarts, x.eErr)}
		}
		if !x.gDone || !x.eDone {
			return &core.Failure{Clause: "did-not-terminate", Detail: fmt.Sprintf("%v %v", rr.Outcome, rr.Blocked)}
		}
		if wd := want(x.a, x.b); x.digest != wd {
			return &core.Failure{Clause: "wrong-digest", Detail: fmt.Sprintf("session %d of %d: evaluator output %x, SHA-256(a xor b) = %x (curve %s, restarts: %s)", i, nSess, x.digest, wd, smp.Curve, x.restarts)}
		}
	}
	return nil
}

// mixing: messages and persisted sessions of another protocol instance or
// curve, replayed rounds, a party's own message fed back.
func (w *world) mixing(t *rt.Tape, trace bool, res *core.Result, smp *sample, curve elliptic.Curve, a, b [32]byte) *core.Failure {
	smp.Mode = "session / curve mixing"
	other := curve
	if t.Choose(rt.SGen, 3) == 0 {
		other = Curves[t.Choose(rt.SGen, 3)]
	}
	var fail *core.Failure
	rr := rt.Run(rt.Config{Trace: trace}, t, func() {
		s1, f := Honest(curve, a, b, simrand.Stream("G1"), simrand.Stream("E1"))
		if f != nil {
			fail = f
			return
		}
		if s1.Digest != want(a, b) {
			fail = &core.Failure{Clause: "wrong-digest", Detail: "honest session"}
			return
		}
		rt.LogBytes('1', s1.M1) // the case is part of the run's identity
		rt.LogBytes('2', s1.M2)
		s2, f := Honest(other, b, a, simrand.Stream("G2"), simrand.Stream("E2"))
		if f != nil {
			fail = f
			return
		}
		sameCurve := other.Params().Name == curve.Params().Name
		if sameCurve {
			// fixed sizes: two independent sessions on one curve give the same five lengths
			l1 := []int{len(s1.M1), len(s1.M2), len(s1.M3), len(s1.GS), len(s1.ES)}
			l2 := []int{len(s2.M1), len(s2.M2), len(s2.M3), len(s2.GS), len(s2.ES)}
			if fmt.Sprint(l1) != fmt.Sprint(l2) {
				fail = &core.Failure{Clause: "sizes-not-fixed", Detail: fmt.Sprintf("two sessions on %s: encoded lengths %v vs %v", smp.Curve, l1, l2)}
				return
			}
			res.Reach["mixing.sizes-compared"]++
		}
		// digest via foreign pieces must never come out
		type attempt struct {
			name    string
			es, m3  []byte
			esCurve elliptic.Curve
		}
		attempts := []attempt{
			{"evaluator session of instance 1 with round 3 of instance 2", s1.ES, s2.M3, curve},
			{"evaluator session of instance 2 with round 3 of instance 1", s2.ES, s1.M3, other},
		}
		for _, at := range attempts {
			var dg [32]byte
			err := safe(at.name, func() error {
				es, err := sha2pc.DecodeEvaluatorSession(at.esCurve, at.es)
				if err != nil {
					return err
				}
				m3, err := sha2pc.DecodeRound3(at.m3)
				if err != nil {
					return err
				}
				dg, err = sha2pc.EvaluatorRound4(at.esCurve, es, m3)
				return err
			})
			if isPanic(err) {
				fail = &core.Failure{Clause: "panic", Detail: err.Error()}
				return
			}
			if err == nil {
				fail = &core.Failure{Clause: "foreign-session-accepted", Detail: fmt.Sprintf("%s: EvaluatorRound4 returned digest %x without error", at.name, dg)}
				return
			}
			res.Reach["mixing.rejected"]++
		}
		// garbler of instance 1 gets round 2 of instance 2
		err := safe("GarblerRound3 with foreign round 2", func() error {
			gs, err := sha2pc.DecodeGarblerSession(curve, s1.GS)
			if err != nil {
				return err
			}
			m2, err := sha2pc.DecodeRound2(curve, s2.M2)
			if err != nil {
				return err
			}
			_, err = sha2pc.GarblerRound3(simrand.Stream("G1b"), curve, gs, a, m2)
			return err
		})
		if isPanic(err) {
			fail = &core.Failure{Clause: "panic", Detail: err.Error()}
			return
		}
		if err == nil {
			fail = &core.Failure{Clause: "foreign-session-accepted", Detail: "GarblerRound3 accepted the round 2 message of another protocol instance"}
			return
		}
		res.Reach["mixing.rejected"]++
		// replayed / fed-back rounds must be refused by the decoders
		type dec struct {
			name string
			f    func() error
		}
		decs := []dec{
			{"round 1 bytes as round 2", func() error { _, e := sha2pc.DecodeRound2(curve, s1.M1); return e }},
			{"round 2 bytes as round 1", func() error { _, e := sha2pc.DecodeRound1(curve, s1.M2); return e }},
			{"round 2 bytes as round 3", func() error { _, e := sha2pc.DecodeRound3(s1.M2); return e }},
			{"round 3 bytes as round 2", func() error { _, e := sha2pc.DecodeRound2(curve, s1.M3); return e }},
			{"garbler session as evaluator session", func() error { _, e := sha2pc.DecodeEvaluatorSession(curve, s1.GS); return e }},
			{"evaluator session as garbler session", func() error { _, e := sha2pc.DecodeGarblerSession(curve, s1.ES); return e }},
		}
		if !sameCurve {
			decs = append(decs,
				dec{"round 1 of curve " + other.Params().Name + " decoded for " + smp.Curve, func() error {
					m, e := sha2pc.DecodeRound1(curve, s2.M1)
					if e != nil {
						return e
					}
					_, _, e = sha2pc.EvaluatorRound2(simrand.Stream("E1c"), curve, m, b)
					return e
				}},
				dec{"round 2 of the other curve", func() error { _, e := sha2pc.DecodeRound2(curve, s2.M2); return e }},
				dec{"garbler session of the other curve", func() error { _, e := sha2pc.DecodeGarblerSession(curve, s2.GS); return e }},
				dec{"evaluator session of the other curve", func() error { _, e := sha2pc.DecodeEvaluatorSession(curve, s2.ES); return e }},
				// the same in the other direction: values of a session of the other curve handed to this
				// curve's encoders (what a process that serves two curves can do by mistake)
				dec{"round 1 value of curve " + other.Params().Name + " encoded for " + smp.Curve, func() error {
					m, e := sha2pc.DecodeRound1(other, s2.M1)
					if e != nil {
						return fmt.Errorf("harness: %v", e)
					}
					_, e = sha2pc.EncodeRound1(curve, m)
					return e
				}},
				dec{"round 2 value of curve " + other.Params().Name + " encoded for " + smp.Curve, func() error {
					m, e := sha2pc.DecodeRound2(other, s2.M2)
					if e != nil {
						return fmt.Errorf("harness: %v", e)
					}
					_, e = sha2pc.EncodeRound2(curve, m)
					return e
				}},
				dec{"garbler session of curve " + other.Params().Name + " encoded for " + smp.Curve, func() error {
					m, e := sha2pc.DecodeGarblerSession(other, s2.GS)
					if e != nil {
						return fmt.Errorf("harness: %v", e)
					}
					_, e = sha2pc.EncodeGarblerSession(curve, m)
					return e
				}},
				dec{"evaluator session of curve " + other.Params().Name + " encoded for " + smp.Curve, func() error {
					m, e := sha2pc.DecodeEvaluatorSession(other, s2.ES)
					if e != nil {
						return fmt.Errorf("harness: %v", e)
					}
					_, e = sha2pc.EncodeEvaluatorSession(curve, m)
					return e
				}},
			)
			res.Reach["mixing.other-curve"]++
		}
		for _, d := range decs {
			err := safe(d.name, d.f)
			if isPanic(err) {
				fail = &core.Failure{Clause: "panic", Detail: err.Error()}
				return
			}
			if err == nil {
				fail = &core.Failure{Clause: "foreign-message-accepted", Detail: d.name + ": accepted without error"}
				return
			}
			res.Reach["mixing.rejected"]++
		}
	})
	core.Finish(res, rr)
	if len(rr.Crashed) > 0 {
		return &core.Failure{Clause: "panic", Detail: core.CrashDetail(rr)}
	}
	return fail
}

// mutations: flip, truncate, extend, splice every encoding; decoders never
// panic or hang; bytes that still decode are followed through the next round.
func (w *world) mutations(t *rt.Tape, trace bool, res *core.Result, smp *sample, curve elliptic.Curve, a, b [32]byte) *core.Failure {
	smp.Mode = "mutations of the five encodings"
	var fail *core.Failure
	rr := rt.Run(rt.Config{Trace: trace}, t, func() {
		s, f := Honest(curve, a, b, simrand.Stream("G1"), simrand.Stream("E1"))
		if f != nil {
			fail = f
			return
		}
		encs := [][]byte{s.M1, s.M2, s.M3, s.GS, s.ES}
		names := []string{"round1", "round2", "round3", "garbler-session", "evaluator-session"}
		wantDigest := want(a, b)
		// where the per-output decoding material sits in the round 3 message: encode the payload with
		// all-zero and with all-one hints; the encodings differ exactly there (a third of the bit
		// flips in round 3 go into that field - 8 KiB of 700)
		hintLo, hintHi := -1, -1
		{
			z, f := s.Msg3, s.Msg3
			z.OutputHints = make([]ot.Wire, len(s.Msg3.OutputHints))
			f.OutputHints = make([]ot.Wire, len(s.Msg3.OutputHints))
			ones := ot.Label{D0: ^uint64(0), D1: ^uint64(0)}
			for i := range f.OutputHints {
				f.OutputHints[i] = ot.Wire{L0: ones, L1: ones}
			}
			zb, err1 := sha2pc.EncodeRound3(z)
			fb, err2 := sha2pc.EncodeRound3(f)
			if err1 == nil && err2 == nil && len(zb) == len(s.M3) && len(fb) == len(s.M3) {
				for i := range zb {
					if zb[i] != fb[i] {
						if hintLo < 0 {
							hintLo = i
						}
						hintHi = i + 1
					}
				}
			}
		}
		rt.LogBytes('1', s.M1) // the case is part of the run's identity
		rt.LogBytes('2', s.M2)
		n := 40 + t.Choose(rt.SFault, 160)
		for i := 0; i < n && fail == nil; i++ {
			which := t.Choose(rt.SFault, 5)
			if which == 2 && t.Choose(rt.SFault, 3) != 0 {
				which = []int{0, 1, 3, 4}[t.Choose(rt.SFault, 4)] // round 3 is 700 KB; mutate it less often
			}
			src := encs[which]
			m := append([]byte(nil), src...)
			var desc string
			switch t.Choose(rt.SFault, 7) {
			case 6: // overwrite with an extreme variable-length integer (10-byte encodings up to 2^64-1)
				pats := [][]byte{
					{0xff, 0xff, 0xff, 0xff, 0xff, 0xff, 0xff, 0xff, 0xff, 0x01},
					{0x80, 0x80, 0x80, 0x80, 0x80, 0x80, 0x80, 0x80, 0x80, 0x01},
					{0xff, 0xff, 0xff, 0xff, 0xff, 0xff, 0xff, 0xff, 0x7f},
					{0xff, 0xff, 0xff, 0xff, 0x0f},
					{0xff, 0xff, 0xff, 0xff, 0xff, 0xff, 0xff, 0xff, 0xff, 0xff, 0xff},
				}
				pat := pats[t.Choose(rt.SFault, len(pats))]
				off := t.Choose(rt.SFault, min(len(m), 48))
				if t.Choose(rt.SFault, 4) == 0 {
					off = t.Choose(rt.SFault, len(m))
				}
				if t.Choose(rt.SFault, 2) == 0 { // replace in place
					copy(m[off:], pat)
				} else { // insert
					m = append(m[:off:off], append(append([]byte(nil), pat...), src[off:]...)...)
				}
				desc = fmt.Sprintf("varint extreme %x at %d", pat, off)
				res.Faults["mutation.varint-extreme"]++
			case 0, 1: // bit flip
				off := t.Choose(rt.SFault, len(m))
				if t.Choose(rt.SFault, 2) == 0 {
					off = t.Choose(rt.SFault, min(len(m), 64))
				}
				if which == 2 && hintLo >= 0 && t.Choose(rt.SFault, 3) == 0 {
					off = hintLo + t.Choose(rt.SFault, hintHi-hintLo)
				}
				m[off] ^= 1 << t.Choose(rt.SFault, 8)
				desc = fmt.Sprintf("flip byte %d", off)
				res.Faults["mutation.flip"]++
			case 2: // truncate
				cut := t.Choose(rt.SFault, len(m))
				if t.Choose(rt.SFault, 2) == 0 {
					cut = len(m) - 1 - t.Choose(rt.SFault, min(len(m), 40))
				}
				m = m[:cut]
				desc = fmt.Sprintf("truncate to %d", cut)
				res.Faults["mutation.truncate"]++
			case 3: // extend
				k := 1 + t.Choose(rt.SFault, 40)
				ext := make([]byte, k)
				simrand.Stream("mut").Read(ext)
				m = append(m, ext...)
				desc = fmt.Sprintf("extend by %d", k)
				res.Faults["mutation.extend"]++
			case 4: // splice a field of another encoding in
				o := encs[t.Choose(rt.SFault, 5)]
				off := t.Choose(rt.SFault, len(m))
				l := 1 + t.Choose(rt.SFault, 64)
				so := t.Choose(rt.SFault, len(o))
				for j := 0; j < l && off+j < len(m) && so+j < len(o); j++ {
					m[off+j] = o[so+j]
				}
				desc = fmt.Sprintf("splice %d bytes at %d", l, off)
				res.Faults["mutation.splice"]++
			case 5: // set a 32-bit big-endian field to a boundary value
				off := t.Choose(rt.SFault, max(1, len(m)-4))
				v := []uint32{0, 1, 0x7fffffff, 0x80000000, 0xffffffff, 1 << 20, 1<<20 + 1}[t.Choose(rt.SFault, 7)]
				if off+4 <= len(m) {
					binary.BigEndian.PutUint32(m[off:], v)
				}
				desc = fmt.Sprintf("u32 %#x at %d", v, off)
				res.Faults["mutation.length-field"]++
			}
			follow := t.Choose(rt.SFault, 8) == 0 || which == 2 && len(m) == len(src) && t.Choose(rt.SFault, 2) == 0
			err := safe(names[which]+" "+desc, func() error {
				switch which {
				case 0:
					m1, err := sha2pc.DecodeRound1(curve, m)
					if err != nil {
						return err
					}
					res.Reach["mutation.still-decodes"]++
					if follow {
						_, _, err = sha2pc.EvaluatorRound2(simrand.Stream("E-m"), curve, m1, b)
					}
					return err
				case 1:
					m2, err := sha2pc.DecodeRound2(curve, m)
					if err != nil {
						return err
					}
					res.Reach["mutation.still-decodes"]++
					if follow {
						gs, err := sha2pc.DecodeGarblerSession(curve, s.GS)
						if err != nil {
							return err
						}
						_, err = sha2pc.GarblerRound3(simrand.Stream("G-m"), curve, gs, a, m2)
						return err
					}
					return nil
				case 2:
					m3, err := sha2pc.DecodeRound3(m)
					if err != nil {
						if len(m) != len(src) {
							res.Reach["round3.other-length-refused"]++
						}
						return err
					}
					if len(m) != len(src) {
						return fmt.Errorf("ACCEPTED-LENGTH: a round 3 message of %d bytes (valid length %d) was decoded", len(m), len(src))
					}
					res.Reach["mutation.still-decodes"]++
					if follow {
						es, err := sha2pc.DecodeEvaluatorSession(curve, s.ES)
						if err != nil {
							return err
						}
						dg, err := sha2pc.EvaluatorRound4(curve, es, m3)
						if err == nil && !bytes.Equal(m, src) && dg != wantDigest {
							// the honest evaluator, given a round 3 message that is not the garbler's, returned a
							// digest as if the run had succeeded - and it is not SHA-256(a xor b)
							return fmt.Errorf("WRONG-DIGEST: EvaluatorRound4 accepted a round 3 message altered in transit (%s) and returned %x; SHA-256(a xor b) is %x", desc, dg, wantDigest)
						}
						if err == nil {
							res.Reach["round3.altered-message-harmless (digest still right)"]++
						}
						return err
					}
					return nil
				case 3:
					gs, err := sha2pc.DecodeGarblerSession(curve, m)
					if err != nil {
						return err
					}
					res.Reach["mutation.still-decodes"]++
					if follow {
						m2, err := sha2pc.DecodeRound2(curve, s.M2)
						if err != nil {
							return err
						}
						_, err = sha2pc.GarblerRound3(simrand.Stream("G-m"), curve, gs, a, m2)
						return err
					}
					return nil
				default:
					es, err := sha2pc.DecodeEvaluatorSession(curve, m)
					if err != nil {
						return err
					}
					res.Reach["mutation.still-decodes"]++
					if follow {
						_, err = sha2pc.EvaluatorRound4(curve, es, s.Msg3)
						return err
					}
					return nil
				}
			})
			if isPanic(err) {
				fail = &core.Failure{Clause: "panic", Detail: fmt.Sprintf("%s (%s, %s): %v", names[which], desc, smp.Curve, err)}
			} else if err != nil && strings.HasPrefix(err.Error(), "WRONG-DIGEST") {
				fail = &core.Failure{Clause: "altered-message-accepted-with-wrong-digest", Detail: err.Error()}
			} else if err != nil && len(err.Error()) > 15 && err.Error()[:15] == "ACCEPTED-LENGTH" {
				fail = &core.Failure{Clause: "round3-length-not-enforced", Detail: err.Error()}
			} else if err != nil {
				res.Reach["mutation.rejected"]++
			}
		}
	})
	core.Finish(res, rr)
	if len(rr.Crashed) > 0 {
		return &core.Failure{Clause: "panic", Detail: core.CrashDetail(rr)}
	}
	return fail
}
