// Package all links every world into the worker.
package all

import (
	_ "verifsim/worlds/circfile"
	_ "verifsim/worlds/compiledet"
	_ "verifsim/worlds/conn"
	_ "verifsim/worlds/corrupt"
	_ "verifsim/worlds/gmwworld"
	_ "verifsim/worlds/kos"
	_ "verifsim/worlds/leak"
	_ "verifsim/worlds/mesh"
	_ "verifsim/worlds/mulgadgets"
	_ "verifsim/worlds/otpair"
	_ "verifsim/worlds/sha2pcworld"
	_ "verifsim/worlds/sharedcirc"
	_ "verifsim/worlds/stream"
	_ "verifsim/worlds/twopc"
)
