// Package mesh is the simulated world for C19: N parties form the p2p mesh
// (p2p.Create/Join/Connect) over the simulated network under arbitrary start
// order, dial/accept timing and interleaving of each party's accept task with
// its Connect task.
package mesh

import (
	"fmt"
	"time"

	"github.com/markkurossi/mpc/p2p"

	"verifsim/sim/rt"
	"verifsim/sim/simnet"
	"verifsim/worlds/core"
)

func init() {
	core.Register("C19", func(tier string) core.World { return &world{tier: tier} })
}

type world struct{ tier string }

type party struct {
	id         int
	addr       string
	nw         *p2p.Network
	joinErr    error
	connectErr error
	connected  bool
	missing    string // completeness at the moment Connect returned
	tokenErr   string
	done       bool
	closeErr   error
}

type sample struct {
	Parties, Conns int
	Delays         []string
	Net            string
}

func token(from, to, c int) int { return 0x5a000000 | from<<16 | to<<8 | c }

func (w *world) Run(t *rt.Tape, trace bool) *core.Result {
	res := &core.Result{}
	core.BeginRun(t)
	n := 2 + t.Choose(rt.SGen, 5)
	k := 1 + t.Choose(rt.SGen, 4)
	if t.Choose(rt.SGen, 3) == 0 { // bias to the smallest interesting shapes
		n = 2 + t.Choose(rt.SGen, 2)
		k = 1 + t.Choose(rt.SGen, 2)
	}
	if t.Choose(rt.SGen, 120) == 0 {
		// "every number of connections per pair": around the 256 that the one-byte connection id of the
		// hello message can tell apart (a configuration the constructors refuse is not judged)
		n, k = 2, []int{255, 256, 257, 300}[t.Choose(rt.SGen, 4)]
	}
	net := simnet.Current()
	dir, _ := core.DrawDir(t, core.TCPCaps)
	dir.LatMax /= 4
	net.NewPipeConfig = func(from, to string) simnet.PipeConfig { return simnet.PipeConfig{AB: dir, BA: dir} }
	// a third of the cases: the accept queues do not keep the dialling order (see simnet)
	if t.Choose(rt.SGen, 3) == 0 {
		net.AcceptReorder = 1 + t.Choose(rt.SGen, 3)
	}
	dialLat := t.Choose(rt.SGen, 3)
	net.DialLatency = func(from, to string) time.Duration {
		switch dialLat {
		case 0:
			return 0
		case 1:
			return time.Duration(rt.Choose(rt.SNet, 4)) * 5 * time.Millisecond
		}
		return time.Duration(rt.Choose(rt.SNet, 40)) * time.Millisecond
	}
	ps := make([]*party, n)
	smp := sample{Parties: n, Conns: k, Net: core.DescribeDir(dir) + fmt.Sprintf(" dial-latency-mode=%d accept-queue-reorder=1/%d", dialLat, net.AcceptReorder)}
	joinDelay := make([]time.Duration, n)
	connDelay := make([]time.Duration, n)
	// "every order and timing in which the parties start": mostly milliseconds apart, in some
	// runs seconds, in some an operator starts a party minutes or hours after the others (any
	// waiting in the code under test that is bounded by a clock must survive that).
	unit := time.Millisecond
	switch t.Choose(rt.SGen, 10) {
	case 7, 8:
		unit = time.Second
	case 9:
		unit = 2 * time.Minute
	}
	// One run in four happens on one host: every party listens on a port of its own, and the
	// addresses are spelled the ways people spell them (":9000", "localhost:9000",
	// "127.0.0.1:9000", "0.0.0.0:9000" to listen) - the leader's address as Create gets it and as
	// each Join gets it need not be the same string.
	oneHost := t.Choose(rt.SGen, 4) == 0
	listenSp := []string{":%d", "127.0.0.1:%d", "localhost:%d", "0.0.0.0:%d"}
	dialSp := []string{"127.0.0.1:%d", "localhost:%d", ":%d"}
	leaderDial := make([]string, n)
	for i := range ps {
		ps[i] = &party{id: i, addr: fmt.Sprintf("party%d:9000", i)}
		leaderDial[i] = "party0:9000"
		if oneHost {
			ps[i].addr = fmt.Sprintf(dialSp[t.Choose(rt.SGen, len(dialSp))], 9000+i)
			if i == 0 {
				ps[i].addr = fmt.Sprintf(listenSp[t.Choose(rt.SGen, len(listenSp))], 9000)
			}
			leaderDial[i] = fmt.Sprintf(dialSp[t.Choose(rt.SGen, len(dialSp))], 9000)
		}
		if t.Choose(rt.SGen, 2) == 1 {
			joinDelay[i] = time.Duration(t.Choose(rt.SGen, 100)) * unit
		}
		if t.Choose(rt.SGen, 2) == 1 {
			connDelay[i] = time.Duration(t.Choose(rt.SGen, 100)) * unit
		}
		smp.Delays = append(smp.Delays, fmt.Sprintf("p%d: join+%v connect+%v", i, joinDelay[i], connDelay[i]))
	}
	// One case in six: fail, then carry on. The address of one joining party is still taken when it
	// first calls Join (its predecessor has not gone yet): that Join fails; the operator frees the
	// address and the party joins again. The mesh must form all the same.
	busy := -1
	if n > 1 && t.Choose(rt.SGen, 6) == 0 {
		busy = 1 + t.Choose(rt.SGen, n-1)
		smp.Delays = append(smp.Delays, fmt.Sprintf("p%d: its address is in use at its first Join, which fails; it joins again", busy))
		res.Reach = map[string]int{"fail-then-carry-on": 1}
	}
	// One case in eight: the operator of one party loses patience - if its Connect has not returned
	// after a while (another party may be hours late), the party's network is closed under it,
	// the only way the API offers to stop waiting. Connect may then fail; what it must not do is
	// return nil with connections missing. Nothing else is judged in such a run.
	refused := false
	giveUp, patience := -1, time.Duration(0)
	gaveUp := false
	if busy < 0 && t.Choose(rt.SGen, 8) == 0 {
		giveUp = t.Choose(rt.SGen, n)
		patience = []time.Duration{time.Millisecond, 50 * time.Millisecond, 2 * time.Second, time.Minute}[t.Choose(rt.SGen, 4)]
		smp.Delays = append(smp.Delays, fmt.Sprintf("p%d: closes its network if Connect has not returned after %v", giveUp, patience))
	}
	res.Sample = smp
	res.Class = fmt.Sprintf("n=%d k=%d", n, k)

	rr := rt.Run(rt.Config{Trace: trace, NoProgress: core.NoProgressDefault}, t, func() {
		// The leader's listener exists before anybody joins, as in any deployment.
		nw, err := p2p.Create(ps[0].addr, n, k)
		if err != nil && k > 200 {
			refused = true
			return
		}
		ps[0].nw, ps[0].joinErr = nw, err
		for _, p := range ps {
			p := p
			rt.GoParty(fmt.Sprintf("p%d", p.id), "main", func() {
				defer func() {
					if !rt.Unwinding() { // blocked tasks are unwound at the end of a run
						p.done = true
					}
				}()
				if p.id != 0 {
					rt.Sleep(joinDelay[p.id])
					if p.id == busy {
						blocker, err := simnet.Listen("tcp", p.addr)
						if err == nil {
							if _, ferr := p2p.Join(leaderDial[p.id], p.addr, p.id, k); ferr != nil {
								rt.Reach("fail-then-carry-on.first-join-failed")
							}
							blocker.Close()
						}
					}
					p.nw, p.joinErr = p2p.Join(leaderDial[p.id], p.addr, p.id, k)
					rt.Tracef("HARNESS party %d: Join returned err=%v", p.id, p.joinErr)
				}
				if p.joinErr != nil {
					return
				}
				rt.Sleep(connDelay[p.id])
				rt.Tracef("HARNESS party %d: calling Connect", p.id)
				returned := false
				if p.id == giveUp {
					rt.GoParty(fmt.Sprintf("p%d", p.id), "operator", func() {
						rt.Sleep(patience)
						if !returned {
							gaveUp = true
							rt.Reach("operator-closed-the-network-under-a-waiting-Connect")
							p.nw.Close()
						}
					})
				}
				p.connectErr = p.nw.Connect()
				returned = true
				rt.Tracef("HARNESS party %d: Connect returned err=%v with %d peers", p.id, p.connectErr, len(p.nw.Peers))
				if p.connectErr != nil {
					return
				}
				p.connected = true
				// completeness at this very moment
				byID := map[int]*p2p.Peer{}
				for _, peer := range p.nw.Peers {
					byID[peer.ID] = peer
				}
				for j := 0; j < n && p.missing == ""; j++ {
					if j == p.id {
						continue
					}
					peer := byID[j]
					if peer == nil {
						p.missing = fmt.Sprintf("party %d: Connect returned but peer %d is not in Peers (has %d entries)", p.id, j, len(p.nw.Peers))
						break
					}
					for c := 0; c < k; c++ {
						if c >= len(peer.Conns) || peer.Conns[c] == nil {
							p.missing = fmt.Sprintf("party %d: Connect returned but connection %d to peer %d does not exist", p.id, c, j)
							break
						}
					}
					if len(peer.Conns) > k {
						p.missing = fmt.Sprintf("party %d: peer %d has %d connections, configured %d", p.id, j, len(peer.Conns), k)
					}
				}
				if len(p.nw.Peers) != n && p.missing == "" {
					p.missing = fmt.Sprintf("party %d: Peers has %d entries, expected %d", p.id, len(p.nw.Peers), n)
				}
				if p.missing != "" {
					return
				}
				// the k-th connection at one end is the k-th at the other end
				for j := 0; j < n; j++ {
					if j == p.id {
						continue
					}
					for c := 0; c < k; c++ {
						conn := byID[j].Conns[c]
						if err := conn.SendUint32(token(p.id, j, c)); err != nil {
							p.tokenErr = fmt.Sprintf("party %d: send token to %d on conn %d: %v", p.id, j, c, err)
							return
						}
						if err := conn.Flush(); err != nil {
							p.tokenErr = fmt.Sprintf("party %d: flush token to %d on conn %d: %v", p.id, j, c, err)
							return
						}
					}
				}
				for j := 0; j < n; j++ {
					if j == p.id {
						continue
					}
					for c := 0; c < k; c++ {
						v, err := byID[j].Conns[c].ReceiveUint32()
						if err != nil {
							p.tokenErr = fmt.Sprintf("party %d: receive token from %d on conn %d: %v", p.id, j, c, err)
							return
						}
						if v != token(j, p.id, c) {
							p.tokenErr = fmt.Sprintf("party %d: on connection %d of peer %d received token %#x (from=%d to=%d conn=%d), expected from=%d to=%d conn=%d: cross-wired",
								p.id, c, j, v, v>>16&0xff, v>>8&0xff, v&0xff, j, p.id, c)
							return
						}
					}
				}
				rt.Tracef("HARNESS party %d: all tokens exchanged, closing", p.id)
				p.closeErr = p.nw.Close()
			})
		}
	})
	core.Finish(res, rr)
	if refused {
		res.Discard = true
		res.Reach = map[string]int{fmt.Sprintf("discard: Create refuses %d connections per pair", k): 1}
		return res
	}
	res.Nontrivial = rr.Switches > 4
	if res.Inconclusive != "" {
		return res
	}
	fail := func(clause, detail string) *core.Result {
		res.Fail = &core.Failure{Clause: clause, Detail: detail}
		return res
	}
	if len(rr.Crashed) > 0 && !gaveUp {
		return fail("panic", core.CrashDetail(rr))
	}
	if gaveUp {
		// (Close is not synchronised with a running Connect: the abandoned party may crash in a send
		// on its closed connections. The property does not speak about that use; the run is judged only
		// for the one thing it does speak about.)
		if len(rr.Crashed) > 0 {
			res.Reach["abandoned run: a task of the closing party crashed (not judged)"]++
		}
		// the mesh was abandoned by one of its parties: errors (a Join that finds nobody, a Connect
		// that fails) and parties left waiting are what that means; only a Connect that claims success
		// on an incomplete mesh is a violation
		for _, p := range ps {
			if p.missing != "" {
				return fail("incomplete-at-connect-return", "(one party's operator closed its network while its Connect was waiting) "+p.missing)
			}
		}
		res.Reach["run abandoned by an operator (only Connect's claim is judged)"]++
		return res
	}
	for _, p := range ps {
		if p.joinErr != nil {
			return fail("join-error", fmt.Sprintf("party %d: %v", p.id, p.joinErr))
		}
	}
	for _, p := range ps {
		if p.missing != "" {
			return fail("incomplete-at-connect-return", p.missing)
		}
	}
	for _, p := range ps {
		if p.connectErr != nil {
			return fail("connect-error", fmt.Sprintf("party %d: Connect: %v", p.id, p.connectErr))
		}
	}
	for _, p := range ps {
		if p.tokenErr != "" {
			return fail("cross-wired-or-lost", p.tokenErr)
		}
	}
	for _, p := range ps {
		if !p.done {
			return fail("did-not-terminate", fmt.Sprintf("party %d never finished setup (%v); unfinished tasks: %v", p.id, rr.Outcome, rr.Blocked))
		}
	}
	want := k * n * (n - 1) / 2
	if got := len(net.Conns); got != want {
		return fail("connection-count", fmt.Sprintf("%d connections were opened, expected %d (k=%d, n=%d)", got, want, k, n))
	}
	for _, c := range net.Conns {
		if !c.Accepted {
			return fail("connection-count", fmt.Sprintf("connection %s -> %s was never accepted", c.From, c.To))
		}
	}
	return res
}
