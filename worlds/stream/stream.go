// Package stream is the simulated world of the streaming mode: the garbler
// compiles and streams an MPCL program (compiler.Stream), the evaluator
// evaluates on the fly (circuit.StreamEvaluator). It serves C05 (agreement
// with the whole compiled circuit) and the streaming parts of C04 and C16.
package stream

import (
	"fmt"
	"math/big"
	"os"
	"path/filepath"
	"sort"
	"strings"

	"github.com/markkurossi/mpc/circuit"
	"github.com/markkurossi/mpc/compiler"
	"github.com/markkurossi/mpc/compiler/utils"
	"github.com/markkurossi/mpc/env"
	"github.com/markkurossi/mpc/ot"
	"github.com/markkurossi/mpc/p2p"
	"github.com/markkurossi/mpc/types"

	"verifsim/gen"
	"verifsim/sim/rt"
	"verifsim/sim/simnet"
	"verifsim/sim/simrand"
	"verifsim/worlds/core"
	"verifsim/worlds/twopc"
)

// RepoDir is where the corpus programs are read from.
var RepoDir = func() string {
	if r := os.Getenv("VERIF_REPO"); r != "" {
		return r
	}
	return "/repo"
}()

// HexProgram imports library packages with package-level variables (encoding/hex's digit table):
// their initialisation is part of what a compilation - whole or streamed - must do every time.
var HexProgram = Program{Name: "crafted/bytes+binary+hex+bits", Src: `package main

import (
	"bytes"
	"encoding/binary"
	"encoding/hex"
	"math/bits"
)

func main(a, b [4]byte) (int, uint32, []byte) {
	c := bytes.Compare(a[:], b[:])
	x := binary.GetUint32(a[:])
	y := bits.RotateLeft32(x, 3)
	s := hex.EncodeToString(b[:])
	return c, y, []byte(s)
}
`}

// FailingProgram fails in code generation after its imports were initialised.
const FailingProgram = `package main

import (
	"encoding/hex"
)

func main(a, b [2]byte) []byte {
	s := hex.EncodeToString(a[:])
	return undefinedFunction(s)
}
`

// Program is one MPCL source.
type Program struct {
	Name string
	Src  string
}

var corpus []Program

// Heavy adds programs of a few hundred thousand gates to the corpus and raises the size limit of
// a case accordingly (set by the thorough tier of C05 before the first case).
var Heavy bool

// Corpus returns the two-party programs of testsuite/lang and a few examples.
func Corpus() []Program {
	if corpus != nil {
		return corpus
	}
	var files []string
	if only := os.Getenv("VERIF_CORPUS_ONLY"); only != "" {
		// diagnostics (coverage attribution): the corpus is this one file and every case uses it
		if b, err := os.ReadFile(filepath.Join(RepoDir, only)); err == nil {
			corpus = []Program{{Name: only, Src: string(b)}}
			return corpus
		}
	}
	pats := []string{"testsuite/lang/*.mpcl", "apps/garbled/examples/millionaire.mpcl", "apps/garbled/examples/add.mpcl", "apps/garbled/examples/and.mpcl", "apps/garbled/examples/sub.mpcl", "apps/garbled/examples/hamming.mpcl",
		// unsized ([]byte) and struct arguments, library packages (bytes, crypto/aes, crypto/sha1, chacha20)
		"testsuite/bytes/*.mpcl", "testsuite/crypto/sha1.mpcl", "apps/garbled/examples/credit.mpcl", "apps/garbled/examples/div.mpcl", "apps/garbled/examples/key-import.mpcl",
		"apps/garbled/examples/rps.mpcl", "apps/garbled/examples/aesblock2.mpcl", "apps/garbled/examples/aesctr.mpcl", "apps/garbled/examples/chacha20.mpcl"}
	if Heavy {
		// a few hundred thousand gates each: thorough tier only
		pats = append(pats, "testsuite/crypto/sha256_block.mpcl", "testsuite/crypto/hmac_sha1.mpcl", "apps/garbled/examples/aesexpand.mpcl")
	}
	for _, pat := range pats {
		m, _ := filepath.Glob(filepath.Join(RepoDir, pat))
		files = append(files, m...)
	}
	sort.Strings(files)
	for _, f := range files {
		b, err := os.ReadFile(f)
		if err != nil {
			continue
		}
		corpus = append(corpus, Program{Name: strings.TrimPrefix(f, RepoDir+"/"), Src: string(b)})
	}
	return corpus
}

// NewParams returns compiler parameters bound to a DRBG.
// PkgDir holds the harness-owned MPCL packages (vsimnative: native circuits with OR gates).
var PkgDir = func() string {
	d := os.Getenv("VERIF_DIR")
	if d == "" {
		d = "/verif"
	}
	return filepath.Join(d, "mpclpkgs")
}()

// NativeProgram calls native circuits that contain OR, XNOR, AND and INV gates.
var NativeProgram = Program{Name: "crafted/native-or", Src: `package main

import (
	"vsimnative"
)

func main(a, b [3]byte) (uint8, uint8, uint8) {
	x := vsimnative.Or8(a[0], b[0])
	y := vsimnative.Mix8(a[1], b[1])
	z := vsimnative.Or8(x ^ a[2], y & b[2])
	return x, y, z + vsimnative.Mix8(z, x)
}
`}

func NewParams(r *simrand.DRBG) *utils.Params {
	p := utils.NewParams()
	p.PkgPath = []string{PkgDir}
	p.Config = &env.Config{Rand: r}
	p.Warn.DisableAll()
	return p
}

// Case is a compiled reference plus parsed inputs.
type Case struct {
	Prog    Program
	In      [2][]string
	Sizes   [][]int
	Circ    *circuit.Circuit
	X, Y    *big.Int
	Want    []*big.Int
	Discard string
	// Values: the evaluator's input as Go values (the inputValues argument of StreamEvaluator),
	// if every member has a Go form: intN/uintN up to 64 bits, bool, arrays of uint8
	Values []interface{}
}

// goValues turns the evaluator's argument - its bits are in y - into the Go values an application
// would pass: the smallest Go integer type that holds each member (negative numbers for signed
// members whose sign bit is set), bool, []byte. ok is false if a member has no Go form.
func goValues(arg circuit.IOArg, y *big.Int) (vals []interface{}, ok bool) {
	members := circuit.IO{arg}
	if len(arg.Compound) > 0 {
		members = arg.Compound
	}
	ofs := 0
	for _, m := range members {
		w := int(m.Type.Bits)
		field := new(big.Int)
		for b := 0; b < w; b++ {
			field.SetBit(field, b, y.Bit(ofs+b))
		}
		ofs += w
		switch m.Type.Type {
		case types.TBool:
			vals = append(vals, field.Bit(0) == 1)
		case types.TUint:
			if w == 0 || w > 64 {
				return nil, false
			}
			u := field.Uint64()
			switch {
			case w <= 8:
				vals = append(vals, uint8(u))
			case w <= 16:
				vals = append(vals, uint16(u))
			case w <= 32:
				vals = append(vals, uint32(u))
			default:
				vals = append(vals, u)
			}
		case types.TInt:
			if w == 0 || w > 64 {
				return nil, false
			}
			v := int64(field.Uint64())
			if w < 64 && field.Bit(w-1) == 1 {
				v -= 1 << uint(w) // the member's bits as the negative number they mean
			}
			switch {
			case w <= 8:
				vals = append(vals, int8(v))
			case w <= 16:
				vals = append(vals, int16(v))
			case w <= 32:
				vals = append(vals, int32(v))
			default:
				vals = append(vals, v)
			}
		case types.TArray:
			if m.Type.ElementType == nil || m.Type.ElementType.Type != types.TUint || m.Type.ElementType.Bits != 8 {
				return nil, false
			}
			b := make([]byte, w/8)
			for i := range b {
				for k := 0; k < 8; k++ {
					b[i] |= byte(field.Bit(i*8+k)) << k
				}
			}
			if ShortArrays {
				// the application passes only the elements it has: a slice without the array's trailing
				// zero elements, nil for an array of zeros (the rest of a fixed-size array stays zero)
				for len(b) > 0 && b[len(b)-1] == 0 {
					b = b[:len(b)-1]
				}
				if len(b) == 0 {
					vals = append(vals, nil)
					break
				}
			}
			vals = append(vals, b)
		default:
			return nil, false
		}
	}
	return vals, true
}

func argString(t *rt.Tape, a circuit.IOArg) (string, bool) {
	bits := int(a.Type.Bits)
	rnd := func(n int) *big.Int { return gen.Value(t, n, nil) } // structured and random values
	switch a.Type.Type {
	case types.TInt, types.TUint:
		if bits == 0 {
			return "", false
		}
		return rnd(bits).String(), true
	case types.TBool:
		return fmt.Sprint(t.Choose(rt.SGen, 2)), true
	case types.TArray:
		if a.Type.ElementType == nil || bits == 0 || bits%4 != 0 {
			return "", false
		}
		h := rnd(bits).Text(16)
		for len(h) < bits/4 {
			h = "0" + h
		}
		if eb := int(a.Type.ElementType.Bits); eb%4 == 0 && eb > 0 && t.Choose(rt.SGen, 3) == 0 {
			// a buffer that is only partly filled: the last elements are zero
			k := (1 + t.Choose(rt.SGen, bits/eb)) * eb / 4
			h = h[:len(h)-k] + strings.Repeat("0", k)
		}
		return "0x" + h, true
	case types.TSlice:
		// an unsized argument: its length is that of the value passed (1..12 elements)
		if a.Type.ElementType == nil || a.Type.ElementType.Bits == 0 || a.Type.ElementType.Bits%4 != 0 {
			return "", false
		}
		bits = int(a.Type.ElementType.Bits) * (1 + t.Choose(rt.SGen, 12))
		h := rnd(bits).Text(16)
		for len(h) < bits/4 {
			h = "0" + h
		}
		return "0x" + h, true
	}
	return "", false
}

// Prepare compiles the whole-circuit reference of a program and draws
// inputs. probeSizes are the input sizes used to learn the argument shapes.
func Prepare(t *rt.Tape, p Program, probe [][]int) (c *Case) {
	c = &Case{Prog: p}
	defer func() {
		// a compiler crash on a generated program is outside the streaming
		// properties (C12 speaks about it): the case is discarded and counted
		if r := recover(); r != nil {
			c.Discard = fmt.Sprintf("reference compilation panicked: %v", r)
		}
	}()
	params := NewParams(simrand.Stream("compile-ref"))
	circ, _, err := compiler.New(params).Compile(p.Src, probe)
	if err != nil {
		c.Discard = "reference compilation failed: " + firstLine(err.Error())
		return c
	}
	if len(circ.Inputs) != 2 {
		c.Discard = fmt.Sprintf("%d-party program", len(circ.Inputs))
		return c
	}
	for i := 0; i < 2; i++ {
		args := circuit.IO{circ.Inputs[i]}
		if len(circ.Inputs[i].Compound) > 0 {
			args = circ.Inputs[i].Compound
		}
		for k, a := range args {
			s, ok := argString(t, a)
			if !ok {
				c.Discard = "unsupported argument type " + a.Type.String()
				return c
			}
			// one time in eight the evaluator's k-th value is the garbler's k-th value (equal operands)
			if i == 1 && k < len(c.In[0]) && k < len(circ.Inputs[0].Compound)+1 && t.Choose(rt.SGen, 8) == 0 {
				g := circ.Inputs[0]
				if len(g.Compound) > 0 {
					g = g.Compound[k]
				}
				if g.Type.Type == a.Type.Type && g.Type.Bits == a.Type.Bits {
					s = c.In[0][k]
				}
			}
			c.In[i] = append(c.In[i], s)
		}
	}
	// the actual compilation with the sizes of the actual inputs
	for i := 0; i < 2; i++ {
		sz, err := circuit.InputSizes(c.In[i])
		if err != nil {
			c.Discard = "InputSizes: " + err.Error()
			return c
		}
		c.Sizes = append(c.Sizes, sz)
	}
	circ, _, err = compiler.New(NewParams(simrand.Stream("compile-ref2"))).Compile(p.Src, c.Sizes)
	if err != nil {
		c.Discard = "reference compilation failed: " + firstLine(err.Error())
		return c
	}
	c.Circ = circ
	c.X, err = circ.Inputs[0].Parse(c.In[0])
	if err != nil {
		c.Discard = "input parse: " + err.Error()
		return c
	}
	c.Y, err = circ.Inputs[1].Parse(c.In[1])
	if err != nil {
		c.Discard = "input parse: " + err.Error()
		return c
	}
	c.Want = gen.Eval(circ, []*big.Int{c.X, c.Y})
	if v, ok := goValues(circ.Inputs[1], c.Y); ok {
		c.Values = v
	}
	return c
}

func firstLine(s string) string {
	if i := strings.IndexByte(s, '\n'); i >= 0 {
		return s[:i]
	}
	return s
}

// Out is the result of one streaming session.
type Out struct {
	RR           rt.Result
	GIO, EIO     circuit.IO
	GOut, EOut   []*big.Int
	GErr, EErr   error
	GDone, EDone bool
	GE, EG       []byte
	OTWires      []ot.Wire
	EA           *simnet.Endpoint
	Aborted      bool // the session stalled and was aborted
	Par          *Out // the session served at the same time, if any
	// PreGDone, PreEDone: the faulted first session (RunPrelude) has returned at that party
	PreGDone, PreEDone bool
}

type otSpy struct {
	ot.OT
	Wires []ot.Wire
}

func (s *otSpy) Send(wires []ot.Wire) error {
	s.Wires = append(s.Wires, wires...)
	return s.OT.Send(wires)
}

// UseValues is set per run by the C05 world: the evaluator passes its input as Go values
// (inputValues) when the argument has a Go form.
var UseValues bool

// ShortArrays (per run, with UseValues): array members are passed without their trailing zero
// elements.
var ShortArrays bool

// Verbose is set per run by the worlds: the verbose argument of StreamEvaluator and the Verbose
// and Diagnostics parameters of the streaming compiler (reports, never results).
var Verbose bool

// Run executes one streaming session.
func Run(t *rt.Tape, c *Case, otKind int, pipe simnet.PipeConfig, trace bool) *Out {
	return RunAbort(t, c, otKind, pipe, trace, false)
}

// RunAbort is Run; with abortOnStall a stalled session has both sockets
// closed (as an operator would do) and the parties run on to what they return.
func RunAbort(t *rt.Tape, c *Case, otKind int, pipe simnet.PipeConfig, trace, abortOnStall bool) *Out {
	return RunPar(t, c, nil, otKind, pipe, trace, abortOnStall)
}

// RunPar is RunAbort; with par != nil the same two processes serve a second streaming session
// (program and inputs of par) at the same time: own connection, OT objects and compiler
// parameters, the same env.Config, whose randomness source is then a scheduling point that
// may stall. Its result is Out.Par.
func RunPar(t *rt.Tape, c, par *Case, otKind int, pipe simnet.PipeConfig, trace, abortOnStall bool) *Out {
	return RunPrelude(t, c, par, nil, 0, 0, otKind, pipe, trace, abortOnStall)
}

// RunPrelude is RunPar; with pre != nil the two processes first stream the program of pre over a
// connection that is reset at byte cut of direction dir (0 = garbler to evaluator), give that
// connection up, and then run the session proper over a fresh one (fresh OT objects and compiler
// values, the same process): fail, then carry on. Only the session proper is reported.
func RunPrelude(t *rt.Tape, c, par, pre *Case, dir int, cut uint64, otKind int, pipe simnet.PipeConfig, trace, abortOnStall bool) *Out {
	return RunReuse(t, c, par, pre, dir, cut, false, otKind, pipe, trace, abortOnStall)
}

// RunReuse is RunPrelude; with failedCompileFirst the garbler's compiler.Compiler value has, before
// it streams, compiled a program that fails in code generation (an operator's typo): fail, then
// carry on with the same Compiler.
func RunReuse(t *rt.Tape, c, par, pre *Case, dir int, cut uint64, failedCompileFirst bool, otKind int, pipe simnet.PipeConfig, trace, abortOnStall bool) *Out {
	o := &Out{}
	ea, eb := simnet.Pipe("G", "E", pipe)
	o.EA = ea
	spy := &otSpy{OT: twopc.NewOT(otKind, simrand.Stream("G-ot"))}
	otE := twopc.NewOT(otKind, simrand.Stream("E-ot"))
	params := NewParams(simrand.Stream("G-garble"))
	params.Verbose, params.Diagnostics = Verbose, Verbose
	var ea2, eb2 *simnet.Endpoint
	var spy2 *otSpy
	var otE2 ot.OT
	var params2 *utils.Params
	if par != nil {
		o.Par = &Out{}
		ea2, eb2 = simnet.Pipe("Gp", "Ep", pipe)
		o.Par.EA = ea2
		spy2 = &otSpy{OT: twopc.NewOT(otKind, simrand.Stream("G-ot-par"))}
		otE2 = twopc.NewOT(otKind, simrand.Stream("E-ot-par"))
		params.Config.Rand = &simrand.Yielding{R: params.Config.Rand, StallOneIn: []int{0, 4, 16, 64}[t.Choose(rt.SGen, 4)]}
		params2 = NewParams(simrand.Stream("G-garble"))
		params2.Config = params.Config
	}
	var eaP, ebP *simnet.Endpoint
	if pre != nil {
		pp := pipe
		pp.Record = false
		f := simnet.Fault{Kind: simnet.FaultReset, Off: cut}
		if dir == 0 {
			pp.AB.Faults = []simnet.Fault{f}
		} else {
			pp.BA.Faults = []simnet.Fault{f}
		}
		eaP, ebP = simnet.Pipe("G0", "E0", pp)
	}
	var onStall func() bool
	if abortOnStall {
		onStall = func() bool {
			if o.Aborted || o.GDone && o.EDone {
				return false // only connection-writer tasks are left
			}
			o.Aborted = true
			ea.Abort()
			eb.Abort()
			return true
		}
	}
	o.RR = rt.Run(rt.Config{Trace: trace, NoProgress: core.NoProgressDefault, OnStall: onStall, OnCrash: func(party string, _ *rt.Task) {
		if party == "G" {
			ea.Abort()
			if eaP != nil {
				eaP.Abort()
			}
			if ea2 != nil {
				ea2.Abort()
			}
		} else if party == "E" {
			eb.Abort()
			if ebP != nil {
				ebP.Abort()
			}
			if eb2 != nil {
				eb2.Abort()
			}
		}
	}}, t, func() {
		if par != nil {
			n := o.Par
			rt.GoParty("G", "stream-garbler-par", func() {
				conn := p2p.NewConn(ea2)
				n.GIO, n.GOut, n.GErr = compiler.New(params2).Stream(conn, spy2, "{data}", strings.NewReader(par.Prog.Src), par.In[0], par.Sizes)
				n.GDone = true
				if n.GErr != nil {
					ea2.Abort()
				} else {
					conn.Close()
				}
			})
			rt.GoParty("E", "stream-evaluator-par", func() {
				conn := p2p.NewConn(eb2)
				n.EIO, n.EOut, n.EErr = circuit.StreamEvaluator(conn, otE2, par.In[1], nil, Verbose)
				n.EDone = true
				if n.EErr != nil {
					eb2.Abort()
				} else {
					conn.Close()
				}
			})
		}
		rt.GoParty("G", "stream-garbler", func() {
			if pre != nil {
				c0 := p2p.NewConn(eaP)
				_, _, err := compiler.New(NewParams(simrand.Stream("G-garble-0"))).Stream(c0, twopc.NewOT(otKind, simrand.Stream("G-ot-0")), "{data}", strings.NewReader(pre.Prog.Src), pre.In[0], pre.Sizes)
				o.PreGDone = true
				if err == nil {
					c0.Close()
				} else {
					rt.Reach("fail-then-carry-on.garbler-saw-the-failure")
				}
				eaP.Abort()
			}
			conn := p2p.NewConn(ea)
			cc := compiler.New(params)
			if failedCompileFirst {
				func() {
					defer func() { recover() }()
					if _, _, err := cc.Compile(FailingProgram, [][]int{{64}, {64}}); err != nil {
						rt.Reach("fail-then-carry-on.compilation-failed-on-the-same-compiler")
					}
				}()
			}
			o.GIO, o.GOut, o.GErr = cc.Stream(conn, spy, "{data}", strings.NewReader(c.Prog.Src), c.In[0], c.Sizes)
			o.GDone = true
			if o.GErr != nil {
				ea.Abort()
			} else {
				conn.Close()
			}
		})
		rt.GoParty("E", "stream-evaluator", func() {
			if pre != nil {
				c0 := p2p.NewConn(ebP)
				_, _, err := circuit.StreamEvaluator(c0, twopc.NewOT(otKind, simrand.Stream("E-ot-0")), pre.In[1], nil, Verbose)
				o.PreEDone = true
				if err == nil {
					c0.Close()
				} else {
					rt.Reach("fail-then-carry-on.evaluator-saw-the-failure")
				}
				ebP.Abort()
			}
			conn := p2p.NewConn(eb)
			if UseValues && c.Values != nil {
				// the other public form of the evaluator's input: Go values instead of strings
				rt.Reach("evaluator-input.as-go-values")
				o.EIO, o.EOut, o.EErr = circuit.StreamEvaluator(conn, otE, nil, c.Values, Verbose)
			} else {
				o.EIO, o.EOut, o.EErr = circuit.StreamEvaluator(conn, otE, c.In[1], nil, Verbose)
			}
			o.EDone = true
			if o.EErr != nil {
				eb.Abort()
			} else {
				conn.Close()
			}
		})
	})
	o.GE, o.EG = ea.Sent(), eb.Sent()
	o.OTWires = spy.Wires
	if par != nil {
		o.Par.GE, o.Par.EG = ea2.Sent(), eb2.Sent()
		o.Par.OTWires = spy2.Wires
	}
	return o
}

func init() {
	core.Register("C05", func(tier string) core.World {
		if tier == "thorough" {
			Heavy = true
		}
		return &c05{tier: tier}
	})
}

type c05 struct{ tier string }

// Sample is the written-out case.
type Sample struct {
	Program string
	Source  string `json:",omitempty"`
	In0     []string
	In1     []string
	Circuit string
	OT      string
	Pipe    string
	Second  string `json:",omitempty"`
}

func ioString(io circuit.IO) string {
	var parts []string
	for _, a := range io {
		parts = append(parts, fmt.Sprintf("%s:%s/%d", a.Name, a.Type.String(), a.Type.Bits))
	}
	return strings.Join(parts, ",")
}

// corpusProbe are the sizes used to learn the argument shapes of a corpus program: one per
// unsized member (a struct argument may have several)
var corpusProbe = [][]int{{128, 128, 128, 128, 128, 128, 128, 128}, {128, 128, 128, 128, 128, 128, 128, 128}}

// DrawProgram draws a program: corpus or generated.
func DrawProgram(t *rt.Tape) (Program, [][]int) {
	if os.Getenv("VERIF_CORPUS_ONLY") != "" {
		if c := Corpus(); len(c) == 1 {
			return c[0], corpusProbe
		}
	}
	if t.Choose(rt.SGen, 40) == 0 {
		return NativeProgram, [][]int{{64}, {64}}
	}
	if t.Choose(rt.SGen, 4) == 0 {
		c := Corpus()
		if len(c) > 0 {
			return c[t.Choose(rt.SGen, len(c))], corpusProbe
		}
	}
	src, probe := gen.MPCL(t)
	return Program{Name: "generated", Src: src}, probe
}

func (w *c05) Run(t *rt.Tape, trace bool) *core.Result {
	res := &core.Result{Reach: map[string]int{}}
	core.BeginRun(t)
	pipe, small := twopc.DrawPipe(t)
	for _, d := range []*simnet.DirConfig{&pipe.AB, &pipe.BA} {
		if d.Frag == simnet.FragOne {
			d.Frag = simnet.FragField
		}
	}
	UseValues = t.Choose(rt.SGen, 3) == 0
	ShortArrays = t.Choose(rt.SGen, 2) == 0
	Verbose = t.Choose(rt.SGen, 5) == 0
	if Verbose {
		res.Reach["option.verbose"]++
	}
	prog, probe := DrawProgram(t)
	// One case in eight: the garbler's Compiler value first compiles a program that fails; half of
	// those cases then stream a program that imports the same library package.
	failedFirst := t.Choose(rt.SGen, 8) == 0
	if failedFirst && t.Choose(rt.SGen, 2) == 0 {
		prog, probe = HexProgram, [][]int{{64}, {64}}
	}
	c := Prepare(t, prog, probe)
	if c.Discard != "" {
		res.Discard = true
		res.Reach["discard: "+strings.SplitN(c.Discard, ":", 2)[0]]++
		if os.Getenv("VERIF_CORPUS_ONLY") != "" {
			res.Reach["discard-detail: "+c.Discard]++
		}
		return res
	}
	inBits := c.Circ.Inputs.Size()
	if c.Circ.NumGates > 200000 && !(Heavy && c.Circ.NumGates <= 600000) {
		res.Discard = true
		res.Reach[fmt.Sprintf("discard: too large (%d00000+ gates)", c.Circ.NumGates/100000)]++
		return res
	}
	if small && (c.Circ.NumGates > 2000 || inBits > 600) {
		// byte-wise delivery of a large session adds nothing: use a coarse transport instead
		for _, d := range []*simnet.DirConfig{&pipe.AB, &pipe.BA} {
			if d.Frag == simnet.FragField || d.Frag == simnet.FragMaxK && d.FragK < 1000 {
				d.Frag = simnet.FragRandom
			}
			if d.Cap >= 0 && d.Cap <= 16 {
				d.Cap = 4096
			}
		}
		res.Reach["transport coarsened for a large program"]++
	}
	kind := []int{twopc.OTCO, twopc.OTCO, twopc.OTCOT, twopc.OTCOTMal}[t.Choose(rt.SGen, 4)]
	if int(c.Circ.Inputs[1].Type.Bits) > 1500 && kind == twopc.OTCO {
		kind = twopc.OTCOT // tens of thousands of public-key OTs would dominate the run
	}
	smp := Sample{Program: prog.Name, In0: c.In[0], In1: c.In[1], Circuit: gen.Describe(c.Circ), OT: twopc.OTNames[kind], Pipe: core.DescribeDir(pipe.AB) + " / " + core.DescribeDir(pipe.BA)}
	if prog.Name == "generated" {
		smp.Source = prog.Src
	}
	res.Sample = smp
	res.Class = "prog=" + strings.SplitN(prog.Name, "/", 2)[0]

	// One case in six (moderate programs, no byte-wise transport): the two processes serve a
	// second streaming session of another program at the same time.
	var c2 *Case
	if !small && c.Circ.NumGates <= 20000 && t.Choose(rt.SGen, 6) == 0 {
		prog2, probe2 := DrawProgram(t)
		if x := Prepare(t, prog2, probe2); x.Discard == "" && x.Circ.NumGates <= 20000 && (kind != twopc.OTCO || int(x.Circ.Inputs[1].Type.Bits) <= 1500) {
			c2 = x
			smp.Second = fmt.Sprintf("session served at the same time: %s in0=%v in1=%v (%s)", prog2.Name, c2.In[0], c2.In[1], gen.Describe(c2.Circ))
			if prog2.Name == "generated" {
				smp.Second += "\n" + prog2.Src
			}
			res.Sample = smp
			res.Reach["concurrent-sessions"]++
		}
	}
	// One of the remaining cases in six: fail, then carry on - the processes first stream another
	// program over a connection that is reset at a tape-chosen byte.
	var pre *Case
	var preDir int
	var preCut uint64
	if c2 == nil && !small && c.Circ.NumGates <= 20000 && t.Choose(rt.SGen, 6) == 0 {
		prog0, probe0 := DrawProgram(t)
		if x := Prepare(t, prog0, probe0); x.Discard == "" && x.Circ.NumGates <= 20000 && (kind != twopc.OTCO || int(x.Circ.Inputs[1].Type.Bits) <= 1500) {
			pre, preDir = x, t.Choose(rt.SGen, 2)
			preCut = uint64(t.Choose(rt.SGen, 1<<uint(2+t.Choose(rt.SGen, 16))))
			smp.Second = fmt.Sprintf("preceded by a streaming session of %s whose connection is reset at byte %d of direction %d", prog0.Name, preCut, preDir)
			if prog0.Name == "generated" {
				smp.Second += "\n" + prog0.Src
			}
			res.Sample = smp
			res.Reach["fail-then-carry-on"]++
		}
	}
	if failedFirst {
		res.Reach["fail-then-carry-on.failed-compilation-first"]++
		smp.Second += " [the garbler's Compiler value first compiles a program that fails in code generation]"
		res.Sample = smp
	}
	o := RunReuse(t, c, c2, pre, preDir, preCut, failedFirst, kind, pipe, trace, false)
	core.Finish(res, o.RR)
	res.Nontrivial = o.RR.Switches > 2
	if c.Circ.NumWires > 65535 {
		res.Reach["wires>65535"]++
	}
	if prog.Name == "generated" {
		res.Reach["program.generated"]++
	} else {
		res.Reach["program.corpus"]++
	}
	if res.Inconclusive != "" {
		return res
	}
	fail := func(clause, detail string) *core.Result {
		res.Fail = &core.Failure{Clause: clause, Detail: detail}
		return res
	}
	if len(o.RR.Crashed) > 0 {
		// the program of the session whose task died (known findings are keyed by program)
		name := prog.Name
		if c2 != nil && strings.Contains(o.RR.Crashed[0].ID, "-par#") {
			name = c2.Prog.Name
		}
		if pre != nil && (!o.PreGDone || !o.PreEDone || !(o.GDone || o.EDone)) {
			// a crash while the faulted session may still have been running: only an undisturbed
			// session is this property's business (and the known finding is keyed by program)
			res.Discard = true
			res.Reach["discard: a party crashed before the session proper ended (faulted prelude)"]++
			return res
		}
		res.Fail = &core.Failure{Clause: "panic", Detail: core.CrashDetail(o.RR),
			Key: fmt.Sprintf("panic|%s|%v", name, o.RR.Crashed[0].Panic)}
		return res
	}
	judge := func(o *Out, c *Case, who string) *core.Result {
		fail := func(clause, detail string) *core.Result { return fail(clause, who+detail) }
		if o.GDone && o.GErr != nil {
			return fail("garbler-error", o.GErr.Error())
		}
		if o.EDone && o.EErr != nil {
			return fail("evaluator-error", o.EErr.Error())
		}
		if !o.GDone || !o.EDone {
			return fail("did-not-terminate", fmt.Sprintf("%v: garbler done=%v evaluator done=%v; %v", o.RR.Outcome, o.GDone, o.EDone, o.RR.Blocked))
		}
		if ioString(o.GIO) != ioString(o.EIO) {
			return fail("output-types-disagree", fmt.Sprintf("garbler %s evaluator %s", ioString(o.GIO), ioString(o.EIO)))
		}
		if !gen.EqualOutputs(o.GOut, o.EOut) {
			return fail("parties-disagree", fmt.Sprintf("garbler %s evaluator %s", gen.FmtInts(o.GOut), gen.FmtInts(o.EOut)))
		}
		if !gen.EqualOutputs(o.GOut, c.Want) {
			return fail("differs-from-whole-circuit", fmt.Sprintf("streaming %s, whole compiled circuit %s (inputs %v %v)", gen.FmtInts(o.GOut), gen.FmtInts(c.Want), c.In[0], c.In[1]))
		}
		var wantTypes, gotTypes []string
		for _, a := range c.Circ.Outputs {
			wantTypes = append(wantTypes, fmt.Sprintf("%s/%d", a.Type.String(), a.Type.Bits))
		}
		for _, a := range o.GIO {
			gotTypes = append(gotTypes, fmt.Sprintf("%s/%d", a.Type.String(), a.Type.Bits))
		}
		if strings.Join(wantTypes, ",") != strings.Join(gotTypes, ",") {
			return fail("output-types-differ-from-whole-circuit", fmt.Sprintf("streaming %v, whole circuit %v", gotTypes, wantTypes))
		}
		return nil
	}
	if r := judge(o, c, ""); r != nil {
		return r
	}
	if c2 != nil {
		if r := judge(o.Par, c2, "session served at the same time by the same processes: "); r != nil {
			return r
		}
	}
	return res
}
