package stream

import (
	"crypto/sha256"
	"encoding/hex"
	"fmt"

	"verifsim/gen"
	"verifsim/sim/rt"
	"verifsim/sim/simnet"
	"verifsim/sim/simrand"
	"verifsim/worlds/core"
	"verifsim/worlds/twopc"
)

// C16 is the streaming part of the C16 world: a clean reference streaming
// session, then corrupted sessions of the same program, inputs and randomness.
type C16 struct{ Tier string }

// Run executes one case; seed is the value BeginRun returned.
func (w *C16) Run(t *rt.Tape, trace bool, seed uint64) *core.Result {
	res := &core.Result{Faults: map[string]int{}, Reach: map[string]int{}}
	dir := simnet.DirConfig{Cap: []int{65536, 4096, -1, 0}[t.Choose(rt.SGen, 4)], Frag: []int{simnet.FragWhole, simnet.FragRandom}[t.Choose(rt.SGen, 2)]}
	pipe := simnet.PipeConfig{AB: dir, BA: dir, Record: true}
	prog, probe := DrawProgram(t)
	c := Prepare(t, prog, probe)
	if c.Discard != "" || c.Circ.NumGates > 1500 || c.Circ.Inputs.Size() > 200 {
		res.Discard = true
		return res
	}
	kind := []int{twopc.OTCO, twopc.OTCO, twopc.OTCOT}[t.Choose(rt.SGen, 3)]
	Verbose = t.Choose(rt.SGen, 4) == 0 // verbose evaluator, verbose and diagnostic streaming compiler
	if Verbose {
		res.Reach["option.verbose"]++
	}
	defer func() { Verbose = false }()
	smp := Sample{Program: prog.Name, In0: c.In[0], In1: c.In[1], Circuit: gen.Describe(c.Circ), OT: twopc.OTNames[kind], Pipe: core.DescribeDir(dir)}
	if prog.Name == "generated" {
		smp.Source = prog.Src
	}
	res.Class = "streaming ot=" + twopc.OTNames[kind]
	h := sha256.New()
	rt.AllocPeak = 0
	ref := Run(t, c, kind, pipe, false)
	// The corrupted sessions run on a machine with 8 times the memory the clean
	// session needed per request: a corrupted count then ends in an allocation
	// failure (a crashed party) instead of hours of work on 2^24 phantom wires.
	defer func(old uint64) { rt.AllocLimit = old }(rt.AllocLimit)
	rt.AllocLimit = max(256<<10, 8*rt.AllocPeak)
	core.Finish(res, ref.RR)
	h.Write([]byte(ref.RR.Hash))
	if res.Inconclusive != "" {
		return res
	}
	if !ref.GDone || ref.GErr != nil || !gen.EqualOutputs(ref.GOut, c.Want) {
		res.Discard = true // a broken clean session is C05's business
		return res
	}
	trials := 4 + t.Choose(rt.SGen, 8)
	// window mode: consecutive byte offsets of one direction, one mask - dense
	// local enumeration instead of scattered samples
	win := twopc.NewWindow(t, ref.GE, ref.EG)
	// A program with a struct argument has nested descriptors (name, type, size,
	// member count per member) in its header: three quarters of these cases enumerate a
	// window of the header densely, since the evaluator lays out its own input
	// by what the header says.
	nested := false
	for _, in := range c.Circ.Inputs {
		if len(in.Compound) > 1 {
			nested = true
		}
	}
	if nested && len(ref.GE) > 64 && t.Choose(rt.SFault, 4) != 0 {
		win = &twopc.Window{Dir: 0, Start: 32 + t.Choose(rt.SFault, min(200, len(ref.GE)-32)), Len: len(ref.GE), Trials: 96, Clean: ref.GE}
		switch k := t.Choose(rt.SFault, 7); k {
		case 0, 1, 2, 3:
			win.Mask = []byte{0x01, 0x80, 0xff, 0x10}[k]
		default:
			win.Set = k - 3
		}
		res.Reach["window-enumerations.struct-argument-header"]++
	}
	if win != nil {
		trials = win.Trials
		res.Reach["window-enumerations"]++
	}
	type smpF struct {
		Sample
		Faults []string
	}
	for k := 0; k < trials; k++ {
		ge, eg, desc := twopc.DrawFaults(t, ref.GE, ref.EG)
		if win != nil {
			ge, eg, desc = win.Fault(k)
		}
		simrand.Reseed(seed)
		simnet.Reset()
		p := pipe
		p.AB.Faults, p.BA.Faults = ge, eg
		o := RunAbort(t, c, kind, p, trace, true)
		h.Write([]byte(o.RR.Hash))
		res.Steps += o.RR.Steps
		res.Switches += o.RR.Switches
		if trace {
			res.Trace = append(res.Trace, fmt.Sprintf("--- trial %d: %v", k, desc))
			res.Trace = append(res.Trace, o.RR.Trace...)
		}
		for kd, n := range o.EA.Stats.FaultsFired {
			res.Faults[[]string{"flip", "burst", "close", "reset", "write-error"}[kd]] += n
		}
		if o.RR.Outcome == rt.StepCap {
			res.Inconclusive = "step cap reached"
			return res
		}
		res.Sample = smpF{smp, desc}
		switch {
		case !o.GDone && len(o.RR.Crashed) > 0:
			res.Reach["outcome.party-crashed"]++
		case !o.GDone:
			res.Reach["outcome.session-stalled"]++
		case o.GErr != nil && o.Aborted:
			res.Reach["outcome.session-stalled-then-aborted:garbler-error"]++
		case o.GErr != nil:
			res.Reach["outcome.garbler-error"]++
		case gen.EqualOutputs(o.GOut, c.Want):
			res.Reach["outcome.garbler-correct-despite-corruption"]++
		default:
			res.Hash = hex.EncodeToString(h.Sum(nil))
			res.Fail = &core.Failure{Clause: "wrong-result-accepted",
				Detail: fmt.Sprintf("streaming session, corruption %v: garbler returned %s without error, whole-circuit evaluation gives %s (evaluator: out=%s err=%v)", desc, gen.FmtInts(o.GOut), gen.FmtInts(c.Want), gen.FmtInts(o.EOut), o.EErr)}
			return res
		}
	}
	res.Hash = hex.EncodeToString(h.Sum(nil))
	res.Nontrivial = true
	if res.Sample == nil {
		res.Sample = smp
	}
	return res
}
