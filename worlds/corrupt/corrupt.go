// Package corrupt is the C16 world: message corruption in transit in
// whole-circuit sessions (5/8 of the cases) and streaming sessions (3/8).
package corrupt

import (
	"verifsim/sim/rt"
	"verifsim/worlds/core"
	"verifsim/worlds/stream"
	"verifsim/worlds/twopc"
)

func init() {
	core.Register("C16", func(tier string) core.World { return &world{tier: tier} })
}

type world struct{ tier string }

func (w *world) Run(t *rt.Tape, trace bool) *core.Result {
	seed := core.BeginRun(t)
	if t.Choose(rt.SGen, 8) < 5 {
		res := (&twopc.C16{Tier: w.tier}).Run(t, trace, seed)
		res.Reach["mode.whole-circuit"]++
		return res
	}
	res := (&stream.C16{Tier: w.tier}).Run(t, trace, seed)
	res.Reach["mode.streaming"]++
	return res
}
