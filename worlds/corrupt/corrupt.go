// Package corrupt is the C16 world: message corruption in transit in
// whole-circuit sessions (5/8 of the cases) and streaming sessions (3/8).
package corrupt

import (
	"math/big"

	"github.com/markkurossi/mpc/circuit"

	"verifsim/sim/rt"
	"verifsim/worlds/core"
	"verifsim/worlds/stream"
	"verifsim/worlds/twopc"
)

func init() {
	core.Register("C16", func(tier string) core.World { return &world{tier: tier} })
	core.Register("C02", func(tier string) core.World {
		return &twopc.C02{Tier: tier, Compiled: func(t *rt.Tape) (*circuit.Circuit, []*big.Int, string) {
			prog, probe := stream.DrawProgram(t)
			c := stream.Prepare(t, prog, probe)
			if c.Discard != "" {
				return nil, nil, ""
			}
			return c.Circ, []*big.Int{c.X, c.Y}, prog.Name
		}}
	})
}

type world struct{ tier string }

func (w *world) Run(t *rt.Tape, trace bool) *core.Result {
	seed := core.BeginRun(t)
	if t.Choose(rt.SGen, 8) < 5 {
		res := (&twopc.C16{Tier: w.tier}).Run(t, trace, seed)
		res.Reach["mode.whole-circuit"]++
		return res
	}
	res := (&stream.C16{Tier: w.tier}).Run(t, trace, seed)
	res.Reach["mode.streaming"]++
	return res
}
