// Package conn is the simulated world for C11: two p2p.Conn over one
// simulated pipe, both directions concurrently, arbitrary typed send
// sequences, flush placements, capacities and read fragmentations, checked
// against a FIFO-of-typed-values reference model.
package conn

import (
	"bytes"
	"fmt"
	"io"
	"strings"
	"time"

	"github.com/markkurossi/mpc/ot"
	"github.com/markkurossi/mpc/p2p"

	"verifsim/sim/rt"
	"verifsim/sim/simnet"
	"verifsim/worlds/core"
)

func init() {
	core.Register("C11", func(tier string) core.World { return &world{tier: tier} })
}

type world struct{ tier string }

const (
	opByte = iota
	opU16
	opU32
	opData
	opString
	opLabel
	opSizes
	opFlush
	numOps
)

var opNames = []string{"byte", "u16", "u32", "data", "string", "label", "sizes", "flush"}

type op struct {
	Kind  int
	N     int // payload size / element count
	ctr   uint32
	b     byte
	i     int
	data  []byte
	label ot.Label
	sizes []int
}

func (o op) String() string {
	switch o.Kind {
	case opData, opString, opSizes:
		return fmt.Sprintf("%s(%d)", opNames[o.Kind], o.N)
	}
	return opNames[o.Kind]
}

var bigSizes = []int{0, 1, 15, 16, 17, 65535, 65536, 65537, 1<<20 - 1, 1 << 20, 1<<20 + 1, 3 << 20}

func fill(n int, seed uint64) []byte {
	b := make([]byte, n)
	x := seed*0x9e3779b97f4a7c15 + 0x1234567
	for i := 0; i < n; i += 8 {
		x ^= x << 13
		x ^= x >> 7
		x ^= x << 17
		for j := 0; j < 8 && i+j < n; j++ {
			b[i+j] = byte(x >> (8 * j))
		}
	}
	return b
}

func genOps(t *rt.Tape, dir int, small bool, endFlush bool) []op {
	n := t.Choose(rt.SGen, 41)
	if t.Choose(rt.SGen, 8) == 0 {
		n = 0
	}
	budget := 8 << 20
	if small {
		budget = 12_000
	}
	var ops []op
	ctr := uint32(0)
	for len(ops) < n {
		k := t.Choose(rt.SGen, numOps)
		o := op{Kind: k}
		ctr++
		o.ctr = uint32(dir)<<31 | ctr
		seed := uint64(o.ctr)
		switch k {
		case opByte:
			o.b = byte(ctr*37 + uint32(dir))
		case opU16:
			o.i = int((ctr*40503 + uint32(dir)) & 0xffff)
		case opU32:
			o.i = int(o.ctr)
			if t.Choose(rt.SGen, 8) == 0 {
				o.i = int(uint32(0xffffff00) | ctr&0xff) // high bit patterns
			}
		case opData, opString:
			var sz int
			switch t.Choose(rt.SGen, 4) {
			case 0:
				sz = bigSizes[t.Choose(rt.SGen, len(bigSizes))]
			case 1:
				sz = t.Choose(rt.SGen, 200)
			case 2:
				sz = t.Choose(rt.SGen, 70000)
			case 3:
				sz = 65536 - 8 + t.Choose(rt.SGen, 16)
			}
			if sz > budget && small {
				sz = []int{4090, 4096, 4097, 1000}[t.Choose(rt.SGen, 4)]
			}
			if sz > budget {
				sz = t.Choose(rt.SGen, 200)
			}
			budget -= sz
			o.N = sz
			o.data = fill(sz, seed)
			if sz >= 4 {
				o.data[0], o.data[1], o.data[2], o.data[3] = byte(o.ctr>>24), byte(o.ctr>>16), byte(o.ctr>>8), byte(o.ctr)
			}
		case opLabel:
			o.label = ot.Label{D0: uint64(o.ctr)<<32 | 0xabcd, D1: seed * 0x9e3779b97f4a7c15}
		case opSizes:
			cnt := []int{0, 1, 2, 5, 33, 1000}[t.Choose(rt.SGen, 6)]
			o.N = cnt
			o.sizes = make([]int, cnt)
			for i := range o.sizes {
				o.sizes[i] = int((o.ctr*1000 + uint32(i)) & 0x7fffffff)
			}
		case opFlush:
		}
		ops = append(ops, o)
	}
	if endFlush && n > 0 {
		ops = append(ops, op{Kind: opFlush})
	}
	return ops
}

type side struct {
	name               string
	conn               *p2p.Conn
	ep                 *simnet.Endpoint
	sendOps            []op
	recvOps            []op // what the other side sends
	sendErr            error
	recvErr            string
	recvd              int
	sendDone, recvDone bool
	closeErr           error
	closed             bool
	eofSeen            bool
	eofErr             string
	waiters            []*rt.Task
	drain              bool                  // fault mode: after a mismatch keep emptying the transport so the sender is never blocked by us
	pause              map[int]time.Duration // before receive #i the application is busy for that long
	// report > 0: before its send #report-1 the application prints a progress report the way the
	// library's users do - the sum of this connection's counters and another's (IOStats.Add, Sum).
	// Reading statistics must leave them what they are.
	report int
	other  *side
}

func (s *side) signal() {
	for _, t := range s.waiters {
		rt.Ready(t)
	}
	s.waiters = nil
}

func (s *side) doSend() {
	var ld ot.LabelData
	c := s.conn
	for i, o := range s.sendOps {
		if s.report == i+1 && s.other != nil && s.other.conn != nil {
			rt.Reach("stats.read-in-mid-session")
			sum := c.Stats.Add(s.other.conn.Stats)
			_ = sum.Sum()
		}
		var err error
		switch o.Kind {
		case opByte:
			err = c.SendByte(o.b)
		case opU16:
			err = c.SendUint16(o.i)
		case opU32:
			err = c.SendUint32(o.i)
		case opData:
			err = c.SendData(o.data)
		case opString:
			err = c.SendString(string(o.data))
		case opLabel:
			err = c.SendLabel(o.label, &ld)
		case opSizes:
			err = c.SendInputSizes(o.sizes)
		case opFlush:
			err = c.Flush()
		}
		if err != nil {
			s.sendErr = fmt.Errorf("op %d %v: %v", i, o, err)
			break
		}
	}
	s.sendDone = true
	s.signal()
}

func (s *side) doRecv() {
	var ld ot.LabelData
	c := s.conn
	for i, o := range s.recvOps {
		if d, ok := s.pause[i]; ok {
			rt.Reach("receiver.busy-before-a-receive")
			rt.Sleep(d)
		}
		bad := ""
		switch o.Kind {
		case opByte:
			v, err := c.ReceiveByte()
			if err != nil {
				bad = "error: " + err.Error()
			} else if v != o.b {
				bad = fmt.Sprintf("got byte %#x, sent %#x", v, o.b)
			}
		case opU16:
			v, err := c.ReceiveUint16()
			if err != nil {
				bad = "error: " + err.Error()
			} else if v != o.i {
				bad = fmt.Sprintf("got uint16 %#x, sent %#x", v, o.i)
			}
		case opU32:
			v, err := c.ReceiveUint32()
			if err != nil {
				bad = "error: " + err.Error()
			} else if uint32(v) != uint32(o.i) {
				bad = fmt.Sprintf("got uint32 %#x, sent %#x", v, o.i)
			}
		case opData:
			v, err := c.ReceiveData()
			if err != nil {
				bad = "error: " + err.Error()
			} else if !bytes.Equal(v, o.data) {
				bad = fmt.Sprintf("data differs: got %d bytes, sent %d bytes, first difference at %d", len(v), len(o.data), firstDiff(v, o.data))
			}
		case opString:
			v, err := c.ReceiveString()
			if err != nil {
				bad = "error: " + err.Error()
			} else if v != string(o.data) {
				bad = fmt.Sprintf("string differs: got %d bytes, sent %d bytes, first difference at %d", len(v), len(o.data), firstDiff([]byte(v), o.data))
			}
		case opLabel:
			var l ot.Label
			err := c.ReceiveLabel(&l, &ld)
			if err != nil {
				bad = "error: " + err.Error()
			} else if !l.Equal(o.label) {
				bad = fmt.Sprintf("got label %v, sent %v", l, o.label)
			}
		case opSizes:
			v, err := c.ReceiveInputSizes()
			if err != nil {
				bad = "error: " + err.Error()
			} else if fmt.Sprint(v) != fmt.Sprint(o.sizes) {
				bad = fmt.Sprintf("sizes differ: got %d elements, sent %d", len(v), len(o.sizes))
			}
		case opFlush:
			continue
		}
		if bad != "" {
			s.recvErr = fmt.Sprintf("%s receive #%d (%v): %s", s.name, i, o, bad)
			if s.drain {
				buf := make([]byte, 65536)
				for {
					if _, err := s.ep.Read(buf); err != nil {
						break
					}
				}
			}
			break
		}
		s.recvd++
	}
	s.recvDone = true
	s.signal()
}

func firstDiff(a, b []byte) int {
	n := min(len(a), len(b))
	for i := 0; i < n; i++ {
		if a[i] != b[i] {
			return i
		}
	}
	return n
}

func (s *side) waitFor(cond func() bool) {
	for !cond() {
		s.waiters = append(s.waiters, rt.Current())
		rt.Park("harness wait " + s.name)
	}
}

type sample struct {
	AB, BA     string
	OpsAB      string
	OpsBA      string
	FirstClose string
	Knobs      string `json:",omitempty"`
}

func opsString(ops []op) string {
	s := ""
	for i, o := range ops {
		if i > 0 {
			s += " "
		}
		if i >= 24 {
			s += fmt.Sprintf("…(+%d)", len(ops)-i)
			break
		}
		s += o.String()
	}
	return s
}

func (w *world) Run(t *rt.Tape, trace bool) *core.Result {
	res := &core.Result{Reach: map[string]int{}}
	core.BeginRun(t)
	ab, smallAB := core.DrawDir(t, core.Caps)
	ba, smallBA := core.DrawDir(t, core.Caps)
	// one case in five: the transport returns (0, nil) from Read now and then,
	// which io.Reader allows (never twice in a row)
	if t.Choose(rt.SGen, 5) == 0 {
		ab.EmptyReads = 2 + t.Choose(rt.SGen, 3)
		ba.EmptyReads = 2 + t.Choose(rt.SGen, 3)
	}
	// one case in four: the transport hands out the last bytes of a closed stream together with
	// io.EOF (legal for an io.Reader; the Conn wraps any io.ReadWriter)
	if t.Choose(rt.SGen, 4) == 0 {
		ab.EOFWithData, ba.EOFWithData = true, true
	}
	first := t.Choose(rt.SGen, 2) // which side closes first (relies on Close to flush)
	a := &side{name: "A"}
	b := &side{name: "B"}
	// Buffer knobs (1 case in 3): the connection's internal buffers shrink to a
	// few dozen bytes, so that every field and every payload crosses the write
	// ring and the read window many times (the shipped 64 KiB / 1 MiB / 3 buffers
	// are used otherwise). Only the C11 world does this: other users of p2p.Conn
	// (circuit, ot) reserve space in WriteBuf directly and rely on its size.
	knobs := ""
	if t.Choose(rt.SGen, 3) == 0 {
		nb := []int{1, 2, 3, 5}[t.Choose(rt.SGen, 4)]
		wb := []int{16, 17, 31, 64, 100, 4096}[t.Choose(rt.SGen, 6)]
		rb := []int{16, 17, 31, 64, 1000, 65536}[t.Choose(rt.SGen, 6)]
		rt.SetKnob("p2p.numBuffers", nb)
		rt.SetKnob("p2p.writeBufSize", wb)
		rt.SetKnob("p2p.readBufSize", rb)
		knobs = fmt.Sprintf("numBuffers=%d writeBufSize=%d readBufSize=%d", nb, wb, rb)
		res.Reach["knobs.small-buffers"]++
		if wb < 4096 || rb < 1000 {
			smallAB, smallBA = true, true // megabyte payloads through 16-byte buffers cost minutes
		}
	}
	a.sendOps = genOps(t, 0, smallAB, first != 0)
	b.sendOps = genOps(t, 1, smallBA, first != 1)
	a.recvOps = b.sendOps
	b.recvOps = a.sendOps
	// In a quarter of the cases a receiving application is busy for a second, most of a minute
	// or ten minutes before one or two of its receives (it computes, it waits for its user): the
	// sender then sits on full buffers for that long.
	for _, sd := range []*side{a, b} {
		if len(sd.recvOps) > 0 && t.Choose(rt.SGen, 4) == 0 {
			sd.pause = map[int]time.Duration{}
			for k := 0; k <= t.Choose(rt.SGen, 2); k++ {
				sd.pause[t.Choose(rt.SGen, len(sd.recvOps))] = []time.Duration{time.Second, 45 * time.Second, 10 * time.Minute}[t.Choose(rt.SGen, 3)]
			}
		}
	}
	// One case in four: an application thread reads the statistics in the middle of the session.
	if t.Choose(rt.SGen, 4) == 0 {
		sd, ot := a, b
		if t.Choose(rt.SGen, 2) == 0 {
			sd, ot = b, a
		}
		if len(sd.sendOps) > 0 {
			sd.report, sd.other = 1+t.Choose(rt.SGen, len(sd.sendOps)), ot
		}
	}
	// Fault mode (1 case in 6): one Write of A's transport fails once without
	// moving anything (a write timeout); the transport works again afterwards.
	// The stream then has a hole, so the only claim left is the narrow one that
	// the sender is told: some Send*/Flush or Close of A returns an error.
	faultMode := t.Choose(rt.SGen, 6) == 0
	var faultOff uint64
	if faultMode {
		first = 0 // the faulted sender closes first: its Close must not wait for the peer
		total := 0
		for _, o := range a.sendOps {
			total += 4 + len(o.data) + 4*len(o.sizes)
		}
		faultOff = uint64(t.Choose(rt.SGen, total+1))
		if t.Choose(rt.SGen, 3) == 0 {
			faultOff = 0
		}
		ab.Faults = []simnet.Fault{{Kind: simnet.FaultWriteErr, Off: faultOff}}
		b.drain = true
	}
	res.Sample = sample{AB: core.DescribeDir(ab), BA: core.DescribeDir(ba), OpsAB: opsString(a.sendOps), OpsBA: opsString(b.sendOps), FirstClose: []string{"A", "B"}[first], Knobs: knobs}
	if faultMode {
		res.Sample = struct {
			sample
			WriteErrorAt uint64
		}{res.Sample.(sample), faultOff}
	}
	res.Class = fmt.Sprintf("capAB=%d fragAB=%d", ab.Cap, ab.Frag)

	ea, eb := simnet.Pipe("A", "B", simnet.PipeConfig{AB: ab, BA: ba})
	a.ep, b.ep = ea, eb
	// One fault-free case in five takes its two Conns from the library's own network constructor
	// (p2p.Create / Join / Connect, two parties, one connection) instead of NewConn: whatever the
	// constructor does to the socket before it wraps it is part of the connection layer.
	viaNetwork := !faultMode && ab.Cap != 0 && ba.Cap != 0 && t.Choose(rt.SGen, 5) == 0
	// One of the remaining fault-free cases in six runs over the library's own in-memory transport
	// (p2p.Pipe: two synchronous io.Pipes - a Write returns when the other end has read all of it,
	// a Read returns data of one Write only).
	viaPipe := !faultMode && !viaNetwork && t.Choose(rt.SGen, 6) == 0
	if viaPipe {
		res.Reach["conn.p2p.Pipe"]++
		res.Class = "p2p.Pipe"
	}
	var setupErr error
	if viaNetwork {
		res.Reach["conn.obtained-through-p2p.Network"]++
	}

	sides := []*side{a, b}
	firstSide, secondSide := sides[first], sides[1-first]

	rr := rt.Run(rt.Config{Trace: trace, NoProgress: core.NoProgressDefault}, t, func() {
		if viaNetwork {
			nt := simnet.Reset()
			// the joiner (B) dials: its direction is the pipe's first
			nt.NewPipeConfig = func(from, to string) simnet.PipeConfig { return simnet.PipeConfig{AB: ba, BA: ab} }
			nwA, err := p2p.Create("hostA:9000", 2, 1)
			if err != nil {
				setupErr = err
				return
			}
			var nwB *p2p.Network
			done := rt.NewChan[error](2)
			rt.GoParty("A", "setup", func() { done.Send(nwA.Connect()) })
			rt.GoParty("B", "setup", func() {
				var err error
				if nwB, err = p2p.Join("hostA:9000", "hostB:9000", 1, 1); err == nil {
					err = nwB.Connect()
				}
				done.Send(err)
			})
			for i := 0; i < 2; i++ {
				if err := done.Recv(); err != nil && setupErr == nil {
					setupErr = err
				}
			}
			if setupErr != nil || len(nt.Conns) != 1 {
				if setupErr == nil {
					setupErr = fmt.Errorf("%d connections after a 2-party setup", len(nt.Conns))
				}
				return
			}
			for _, p := range nwA.Peers {
				if p.ID == 1 && len(p.Conns) == 1 {
					a.conn = p.Conns[0]
				}
			}
			for _, p := range nwB.Peers {
				if p.ID == 0 && len(p.Conns) == 1 {
					b.conn = p.Conns[0]
				}
			}
			if a.conn == nil || b.conn == nil {
				setupErr = fmt.Errorf("the 2-party network has no connection between its parties")
				return
			}
			ea, eb = nt.Conns[0].Server, nt.Conns[0].Client
			a.ep, b.ep = ea, eb
		} else if viaPipe {
			a.conn, b.conn = p2p.Pipe()
		} else {
			a.conn = p2p.NewConn(ea)
			b.conn = p2p.NewConn(eb)
		}
		for _, s := range sides {
			s := s
			rt.GoParty(s.name, "send", s.doSend)
			rt.GoParty(s.name, "recv", s.doRecv)
		}
		rt.GoParty(firstSide.name, "close", func() {
			s := firstSide
			s.waitFor(func() bool { return s.sendDone && s.recvDone })
			if s.sendErr == nil && s.recvErr == "" {
				s.closeErr = s.conn.Close()
				s.closed = true
			}
			s.signal()
		})
		rt.GoParty(secondSide.name, "close", func() {
			s := secondSide
			s.waitFor(func() bool { return s.sendDone && s.recvDone })
			if s.sendErr != nil || s.recvErr != "" {
				return
			}
			// everything the first side sent has arrived; now it closes and we must see EOF
			_, err := s.conn.ReceiveByte()
			if err == io.EOF {
				s.eofSeen = true
			} else if err == nil {
				s.eofErr = "received an extra byte after the last value instead of EOF"
			} else {
				s.eofErr = "error instead of EOF: " + err.Error()
			}
			s.closeErr = s.conn.Close()
			s.closed = true
		})
	})
	core.Finish(res, rr)
	if setupErr != nil {
		// a network that does not form is C19's business
		res.Discard = true
		res.Reach["discard: the two-party network did not form: "+setupErr.Error()]++
		return res
	}
	st := ea.Stats
	res.Reach["pipe.short-reads"] += st.ShortReads
	res.Reach["pipe.writer-blocked"] += st.WriterBlocked
	res.Reach["pipe.reader-blocked"] += st.ReaderBlocked
	res.Reach["pipe.one-byte-reads"] += st.OneByteReads
	res.Reach["pipe.empty-reads"] += st.EmptyReads
	res.Reach["pipe.last-bytes-with-EOF"] += st.EOFWithData
	res.Nontrivial = len(a.sendOps)+len(b.sendOps) > 0 && rr.Switches > 2
	if res.Inconclusive != "" {
		return res
	}

	fail := func(clause, detail string) *core.Result {
		res.Fail = &core.Failure{Clause: clause, Detail: detail}
		return res
	}
	if faultMode && ea.Stats.FaultsFired[simnet.FaultWriteErr] > 0 {
		// B decodes a stream with a hole: a nonsense length there is not A's concern
		for _, c := range rr.Crashed {
			if c.Party == "A" {
				return fail("panic", core.CrashDetail(rr))
			}
		}
	} else if len(rr.Crashed) > 0 {
		return fail("panic", core.CrashDetail(rr))
	}
	if faultMode {
		fired := ea.Stats.FaultsFired[simnet.FaultWriteErr]
		if fired == 0 {
			res.Reach["fault.write-error-not-reached"]++
			return res // the run is only counted; the fault-free cases carry the full oracle
		}
		res.Faults = map[string]int{"transient-write-error": fired}
		if a.sendErr != nil {
			res.Reach["fault.write-error-reported-by-send-or-flush"]++
			return res
		}
		if a.closed && a.closeErr != nil {
			res.Reach["fault.write-error-reported-by-close"]++
			return res
		}
		if !a.closed {
			// A never got to Close (its receive side is stuck behind B): nothing was claimed
			res.Reach["fault.write-error-session-stuck"]++
			return res
		}
		return fail("write-error-swallowed", fmt.Sprintf("a Write of A's transport at stream offset %d failed (nothing written) but every Send*/Flush and Close of A returned nil: the peer has a hole in its stream and the sender was never told (B: %q)", faultOff, b.recvErr))
	}
	for _, s := range sides {
		if s.sendErr != nil {
			return fail("send-error", s.name+" "+s.sendErr.Error())
		}
	}
	for _, s := range sides {
		if s.recvErr != "" {
			return fail("receive-mismatch", s.recvErr)
		}
	}
	stuck := core.Stuck(rr)
	if stuck && viaNetwork {
		// the accept loops of the two networks wait for further connections for ever: that is what
		// they are for; only other unfinished tasks mean that something did not terminate
		stuck = false
		for _, b := range rr.Blocked {
			if !strings.Contains(b, ": accept host") {
				stuck = true
			}
		}
	}
	if stuck {
		return fail("did-not-terminate", fmt.Sprintf("%v; unfinished tasks: %v", rr.Outcome, rr.Blocked))
	}
	if secondSide.eofErr != "" {
		return fail("close-delivery", secondSide.name+": "+secondSide.eofErr)
	}
	for _, s := range sides {
		if s.closeErr != nil {
			return fail("close-error", s.name+" Close: "+s.closeErr.Error())
		}
		if !s.closed {
			return fail("did-not-terminate", s.name+" never closed")
		}
	}
	// reading the counters (Sum, Add) reports them and leaves them what they are
	{
		as, ar, bs, br := a.conn.Stats.Sent.Load(), a.conn.Stats.Recvd.Load(), b.conn.Stats.Sent.Load(), b.conn.Stats.Recvd.Load()
		af, bf := a.conn.Stats.Flushed.Load(), b.conn.Stats.Flushed.Load()
		sum := a.conn.Stats.Add(b.conn.Stats)
		if sum.Sent.Load() != as+bs || sum.Recvd.Load() != ar+br || sum.Flushed.Load() != af+bf || sum.Sum() != as+bs+ar+br {
			return fail("byte-counters", fmt.Sprintf("A.Stats.Add(B.Stats) = sent %d received %d flushed %d (Sum %d); A has sent %d received %d flushed %d, B sent %d received %d flushed %d", sum.Sent.Load(), sum.Recvd.Load(), sum.Flushed.Load(), sum.Sum(), as, ar, af, bs, br, bf))
		}
		if a.conn.Stats.Sum() != as+ar || b.conn.Stats.Sum() != bs+br {
			return fail("byte-counters", fmt.Sprintf("Stats.Sum() is %d at A and %d at B; sent+received is %d and %d", a.conn.Stats.Sum(), b.conn.Stats.Sum(), as+ar, bs+br))
		}
		if a.conn.Stats.Sent.Load() != as || a.conn.Stats.Recvd.Load() != ar || b.conn.Stats.Sent.Load() != bs || b.conn.Stats.Recvd.Load() != br || a.conn.Stats.Flushed.Load() != af || b.conn.Stats.Flushed.Load() != bf {
			return fail("byte-counters", fmt.Sprintf("adding up the statistics of the two connections (A.Stats.Add(B.Stats)) changed them: A sent %d -> %d received %d -> %d, B sent %d -> %d received %d -> %d", as, a.conn.Stats.Sent.Load(), ar, a.conn.Stats.Recvd.Load(), bs, b.conn.Stats.Sent.Load(), br, b.conn.Stats.Recvd.Load()))
		}
	}
	// byte counters equal the bytes actually moved
	type cnt struct {
		name      string
		got, want uint64
	}
	if viaPipe {
		for _, c := range []cnt{
			{"bytes received by B (B.Stats.Recvd) vs bytes sent by A (A.Stats.Sent) over p2p.Pipe", b.conn.Stats.Recvd.Load(), a.conn.Stats.Sent.Load()},
			{"bytes received by A (A.Stats.Recvd) vs bytes sent by B (B.Stats.Sent) over p2p.Pipe", a.conn.Stats.Recvd.Load(), b.conn.Stats.Sent.Load()},
		} {
			if c.got != c.want {
				return fail("byte-counters", fmt.Sprintf("%s: %d != %d", c.name, c.got, c.want))
			}
		}
		return res
	}
	for _, c := range []cnt{
		{"A.Stats.Sent vs bytes accepted by the transport from A", a.conn.Stats.Sent.Load(), ea.SentCount()},
		{"B.Stats.Sent vs bytes accepted by the transport from B", b.conn.Stats.Sent.Load(), eb.SentCount()},
		{"A.Stats.Recvd vs bytes delivered to A", a.conn.Stats.Recvd.Load(), ea.ReceivedCount()},
		{"B.Stats.Recvd vs bytes delivered to B", b.conn.Stats.Recvd.Load(), eb.ReceivedCount()},
		{"bytes delivered to B vs bytes sent by A", eb.ReceivedCount(), ea.SentCount()},
		{"bytes delivered to A vs bytes sent by B", ea.ReceivedCount(), eb.SentCount()},
	} {
		if c.got != c.want {
			return fail("byte-counters", fmt.Sprintf("%s: %d != %d", c.name, c.got, c.want))
		}
	}
	return res
}
