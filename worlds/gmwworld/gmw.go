// Package gmwworld is the simulated world for C10: N parties run the GMW
// protocol (gmw.CreateNetwork/JoinNetwork/Connect/Run/Close) over the
// simulated network; the triple producer, the accept loops and the
// connection writers are tasks of the simulator.
package gmwworld

import (
	"fmt"
	"math/big"
	"strings"
	"time"

	"github.com/markkurossi/mpc/circuit"
	"github.com/markkurossi/mpc/compiler"
	"github.com/markkurossi/mpc/compiler/utils"
	"github.com/markkurossi/mpc/gmw"
	"github.com/markkurossi/mpc/types"

	"verifsim/gen"
	"verifsim/sim/rt"
	"verifsim/sim/simnet"
	"verifsim/sim/simrand"
	"verifsim/worlds/core"
	"verifsim/worlds/stream"
)

func init() {
	core.Register("C10", func(tier string) core.World { return &world{tier: tier} })
}

type world struct{ tier string }

var bodies = []string{
	"return %s", // xor-ish / add chain filled below
	"return (%s) & 0x55",
}

var compiled = map[string]*circuit.Circuit{}

// compiledCircuit compiles a small N-party MPCL program for the GMW target.
func compiledCircuit(t *rt.Tape, n int) (*circuit.Circuit, string) {
	names := []string{"a", "b", "c", "d", "e"}[:n]
	w := []int{3, 8, 13}[t.Choose(rt.SGen, 3)]
	ops := []string{"+", "*", "&", "^", "-"}
	expr := names[0]
	for i := 1; i < n; i++ {
		expr = fmt.Sprintf("(%s %s %s)", expr, ops[t.Choose(rt.SGen, len(ops))], names[i])
	}
	var ret, rty string
	switch t.Choose(rt.SGen, 3) {
	case 0:
		ret, rty = expr, fmt.Sprintf("uint%d", w)
	case 1:
		ret, rty = fmt.Sprintf("%s, %s > %s", expr, names[0], names[n-1]), fmt.Sprintf("(uint%d, bool)", w)
	default:
		ret, rty = fmt.Sprintf("%s * %s, %s", expr, names[n-1], names[0]), fmt.Sprintf("(uint%d, uint%d)", w, w)
	}
	src := fmt.Sprintf("package main\n\nfunc main(%s uint%d) %s {\n\treturn %s\n}\n", strings.Join(names, ", "), w, rty, ret)
	if c, ok := compiled[src]; ok {
		return c, src
	}
	params := stream.NewParams(simrand.New(1, "gmw-compile"))
	params.Target = utils.TargetGMW
	sizes := make([][]int, n)
	for i := range sizes {
		sizes[i] = []int{w}
	}
	circ, _, err := compiler.New(params).Compile(src, sizes)
	if err != nil {
		compiled[src] = nil
		return nil, src
	}
	// the caller of gmw.Run prepares the levels (as apps/garbled does)
	circ.AssignLevels(utils.TargetGMW)
	compiled[src] = circ
	return circ, src
}

type party struct {
	id         int
	addr       string
	nw         *gmw.Network
	joinErr    error
	connectErr error
	runErr     error
	closeErr   error
	out        []*big.Int
	out2       []*big.Int
	runErr2    error
	ran2       bool
	triples    gmw.Triples
	more       []gmw.Triples // the later takes of the case (getsMore)
	gotTriples bool
	done       bool
}

type sample struct {
	Parties int
	Circuit string
	Source  string `json:",omitempty"`
	Inputs  []string
	TripleN int
	// MoreTakes: further Pool.Get calls after the first, every party at its own pace
	MoreTakes []int  `json:",omitempty"`
	Knobs     string `json:",omitempty"`
	Delays    []string
	Net       string
}

// deepChain is a two-party circuit whose AND depth is d: prev = AND(XOR(prev, in_a), one), d times,
// with one = XNOR(in_0, in_0): a running parity that passes through d AND gates and forgets nothing
// (an AND with an input bit would reset the chain whenever that bit is 0, and an error early in the
// chain would be forgotten a few gates later).
func deepChain(d int) *circuit.Circuit {
	const nin = 16
	c := &circuit.Circuit{}
	ty := func(s string) types.Info {
		ti, err := types.Parse(s)
		if err != nil {
			panic(err)
		}
		return ti
	}
	c.Inputs = circuit.IO{{Name: "a", Type: ty("uint8")}, {Name: "b", Type: ty("uint8")}}
	c.Outputs = circuit.IO{{Name: "r", Type: ty("uint2")}}
	prev := circuit.Wire(0)
	w := circuit.Wire(nin)
	add := func(op circuit.Operation, a, b circuit.Wire) circuit.Wire {
		c.Gates = append(c.Gates, circuit.Gate{Op: op, Input0: a, Input1: b, Output: w})
		c.Stats[op]++
		w++
		return w - 1
	}
	one := add(circuit.XNOR, 0, 0)
	for i := 0; i < d; i++ {
		x := add(circuit.XOR, prev, circuit.Wire((i*7+3)%nin))
		prev = add(circuit.AND, x, one)
	}
	// the two result bits: the end of the chain and its complement-ish companion
	x := add(circuit.XOR, prev, circuit.Wire(2))
	add(circuit.XOR, x, circuit.Wire(9))
	c.NumGates, c.NumWires = len(c.Gates), int(w)
	c.AssignLevels(utils.TargetGMW)
	return c
}

func (w *world) Run(t *rt.Tape, trace bool) *core.Result {
	res := &core.Result{Reach: map[string]int{}}
	core.BeginRun(t)
	n := 2 + t.Choose(rt.SGen, 4)
	if t.Choose(rt.SGen, 2) == 0 {
		n = 2 + t.Choose(rt.SGen, 2)
	}
	var circ *circuit.Circuit
	var src string
	deep := false
	if t.Choose(rt.SGen, map[string]int{"thorough": 100}[w.tier]+map[bool]int{true: 200}[w.tier != "thorough"]) == 0 {
		deep = true
		// a long sequential computation: an AND depth around 2^16 (iterated hashes and modular
		// exponentiations compile to such chains; every level is a round of the protocol)
		n = 2
		circ = deepChain(65535 + t.Choose(rt.SGen, 70))
		src = ""
		res.Reach["circuit.and-depth-around-65536"]++
	} else if t.Choose(rt.SGen, 4) == 0 {
		circ, src = compiledCircuit(t, n)
	}
	if circ == nil {
		src = ""
		mg := 300
		if w.tier == "thorough" {
			mg = 900
		}
		circ = gen.Circuit(t, gen.CircuitOpts{Parties: n, GMW: true, MaxIn: 12, MaxGates: mg, ANDHeavy: t.Choose(rt.SGen, 2) == 0})
		circ.AssignLevels(utils.TargetGMW)
	}
	if len(circ.Inputs) != n {
		res.Discard = true
		return res
	}
	in := gen.Inputs(t, circ)
	want := gen.Eval(circ, in)
	tripleN := []int{0, 1, 63, 64, 65, 100, 127, 129, 1000, 4095, 4097}[t.Choose(rt.SGen, 11)]
	if t.Choose(rt.SGen, 16) == 0 {
		// more than the first batches of the shipped configuration hold (4096 + 8192 triples): the
		// producer's third and later batches are handed out too
		tripleN = []int{12289, 13000, 20481, 30000}[t.Choose(rt.SGen, 4)]
	}

	// Half of the cases that take triples directly take some more afterwards, each party at its own
	// pace (busy for 0..1 s before a take): a party that finds the pool short where another finds it
	// full must still be handed the same triples.
	var getsMore []int
	getDelay := map[[2]int]time.Duration{}
	if tripleN > 0 && tripleN < 5000 && t.Choose(rt.SGen, 2) == 0 {
		for k := 0; k <= t.Choose(rt.SGen, 3); k++ {
			getsMore = append(getsMore, []int{1, 64, 65, 100, 129, 300, 1000}[t.Choose(rt.SGen, 7)])
		}
		for id := 0; id < n; id++ {
			for k := 0; k <= len(getsMore); k++ {
				getDelay[[2]int{id, k}] = []time.Duration{0, 0, time.Millisecond, 20 * time.Millisecond, time.Second}[t.Choose(rt.SGen, 5)]
			}
		}
		res.Reach["triples.several-takes-at-different-paces"]++
	}

	// Tuning knobs of the triple pool (half of the runs): with the low-water
	// mark at a few words and batches of 1..8 words the refill protocol between
	// the leader's producer and the consumers (sleep above the mark, wake at or
	// below it, pool running dry in the middle of a level) is exercised by every
	// small circuit instead of only by circuits with >260000 AND gates.
	knobs := ""
	if t.Choose(rt.SGen, 2) == 0 {
		low := []int{0, 1, 2, 3, 5, 8}[t.Choose(rt.SGen, 6)]
		first := 64 * []int{1, 2, 4}[t.Choose(rt.SGen, 3)]
		next := 64 * []int{1, 2, 3, 8}[t.Choose(rt.SGen, 4)]
		rt.SetKnob("gmw.lowWaterMark", low)
		rt.SetKnob("gmw.batchSize.first", first)
		rt.SetKnob("gmw.batchSize.next", next)
		knobs = fmt.Sprintf("lowWaterMark=%d words, batch sizes %d then %d triples", low, first, next)
	}

	// the verbose flag of Run (one case in five, all parties): reports, never results
	verbose := t.Choose(rt.SGen, 5) == 0
	if verbose {
		res.Reach["option.verbose"]++
	}
	// One case in six: before the circuit of the case the parties are given a circuit with an OR gate
	// (not compiled for the GMW target): every party's Run must refuse it; what follows on the same
	// network objects is judged as usual.
	var badCirc *circuit.Circuit
	var badIn []*big.Int
	if t.Choose(rt.SGen, 6) == 0 {
		bc := gen.Circuit(t, gen.CircuitOpts{Parties: n, GMW: true, MaxIn: 12, MaxGates: 60})
		flipped := false
		for i := range bc.Gates {
			if bc.Gates[i].Op == circuit.AND || bc.Gates[i].Op == circuit.XOR {
				if t.Choose(rt.SGen, 3) == 0 || i == len(bc.Gates)-1 {
					bc.Gates[i].Op = circuit.OR
					flipped = true
					break
				}
			}
		}
		if flipped {
			bc.AssignLevels(utils.TargetGMW)
			badCirc, badIn = bc, gen.Inputs(t, bc)
			res.Reach["fail-then-carry-on"]++
		}
	}
	// One case in four: the parties evaluate a second circuit on the same
	// network objects afterwards (Run twice between Connect and Close): with the
	// same input widths (new inputs) or with another generated circuit.
	var circ2 *circuit.Circuit
	var in2, want2 []*big.Int
	if t.Choose(rt.SGen, 4) == 0 {
		circ2 = circ
		if t.Choose(rt.SGen, 2) == 0 {
			circ2 = gen.Circuit(t, gen.CircuitOpts{Parties: n, GMW: true, MaxIn: 12, MaxGates: 120})
			circ2.AssignLevels(utils.TargetGMW)
		}
		in2 = gen.Inputs(t, circ2)
		if circ2 == circ && t.Choose(rt.SGen, 2) == 0 {
			// the same computation again on the same values: every party passes the very *big.Int it
			// passed the first time (what it expects is what those values were when it made them)
			in2 = in
			res.Reach["second-run-with-the-same-input-values"]++
		}
		want2 = gen.Eval(circ2, in2)
		res.Reach["second-run-on-the-same-network"]++
	}

	net := simnet.Current()
	dir := simnet.DirConfig{Cap: core.TCPCaps[t.Choose(rt.SGen, len(core.TCPCaps))], Frag: []int{simnet.FragWhole, simnet.FragRandom, simnet.FragMaxK}[t.Choose(rt.SGen, 3)], FragK: 1000 + t.Choose(rt.SGen, 60000)}
	if t.Choose(rt.SGen, 3) == 0 {
		dir.LatMax = time.Duration(1+t.Choose(rt.SGen, 10)) * time.Millisecond
		dir.LatRand = t.Choose(rt.SGen, 2) == 1
	}
	net.NewPipeConfig = func(from, to string) simnet.PipeConfig { return simnet.PipeConfig{AB: dir, BA: dir} }
	if t.Choose(rt.SGen, 4) == 0 {
		net.AcceptReorder = 1 + t.Choose(rt.SGen, 3) // accept queues that do not keep the dialling order
	}
	dialLat := t.Choose(rt.SGen, 3)
	net.DialLatency = func(from, to string) time.Duration {
		switch dialLat {
		case 0:
			return 0
		case 1:
			return time.Duration(rt.Choose(rt.SNet, 4)) * 5 * time.Millisecond
		}
		return time.Duration(rt.Choose(rt.SNet, 40)) * time.Millisecond
	}
	ps := make([]*party, n)
	smp := sample{Parties: n, Circuit: gen.Describe(circ), Source: src, TripleN: tripleN, MoreTakes: getsMore, Knobs: knobs, Net: core.DescribeDir(dir) + fmt.Sprintf(" dial-latency-mode=%d", dialLat)}
	joinDelay := make([]time.Duration, n)
	connDelay := make([]time.Duration, n)
	runDelay := make([]time.Duration, n)
	// mostly milliseconds; in some runs seconds, in some an operator (or a slow machine) makes a
	// party minutes late - anything in the code under test that waits by the clock must survive it
	unit := time.Millisecond
	switch t.Choose(rt.SGen, 10) {
	case 7, 8:
		unit = time.Second / 4
	case 9:
		unit = 30 * time.Second
	}
	for i := range ps {
		ps[i] = &party{id: i, addr: fmt.Sprintf("party%d:9100", i)}
		smp.Inputs = append(smp.Inputs, "0x"+in[i].Text(16))
		if t.Choose(rt.SGen, 2) == 1 {
			joinDelay[i] = time.Duration(t.Choose(rt.SGen, 100)) * unit
		}
		if t.Choose(rt.SGen, 2) == 1 {
			connDelay[i] = time.Duration(t.Choose(rt.SGen, 100)) * unit
		}
		if t.Choose(rt.SGen, 3) == 0 {
			runDelay[i] = time.Duration(t.Choose(rt.SGen, 200)) * unit
		}
		smp.Delays = append(smp.Delays, fmt.Sprintf("p%d: join+%v connect+%v run+%v", i, joinDelay[i], connDelay[i], runDelay[i]))
	}
	res.Sample = smp
	res.Class = fmt.Sprintf("n=%d", n)

	maxSteps := 0 // the kernel's default
	if deep {
		maxSteps = 400_000_000 // 65 thousand protocol rounds
	}
	rr := rt.Run(rt.Config{Trace: trace, NoProgress: 3 * core.NoProgressDefault, MaxSteps: maxSteps}, t, func() {
		nw, err := gmw.CreateNetwork(ps[0].addr, n)
		ps[0].nw, ps[0].joinErr = nw, err
		for _, p := range ps {
			p := p
			rt.GoParty(fmt.Sprintf("p%d", p.id), "main", func() {
				// (not a plain defer: the kernel unwinds blocked tasks at the end of a run)
				defer func() {
					if !rt.Unwinding() {
						p.done = true
					}
				}()
				if p.id != 0 {
					rt.Sleep(joinDelay[p.id])
					p.nw, p.joinErr = gmw.JoinNetwork(ps[0].addr, p.addr, p.id)
				}
				if p.joinErr != nil {
					return
				}
				rt.Sleep(connDelay[p.id])
				p.connectErr = p.nw.Connect([]int{int(circ.Inputs[p.id].Type.Bits)})
				rt.Tracef("HARNESS party %d: Connect returned err=%v", p.id, p.connectErr)
				if p.connectErr != nil {
					return
				}
				if tripleN > 0 {
					rt.Sleep(getDelay[[2]int{p.id, 0}])
					p.nw.Pool.Get(tripleN, &p.triples)
					p.more = make([]gmw.Triples, len(getsMore))
					for k, cnt := range getsMore {
						rt.Sleep(getDelay[[2]int{p.id, k + 1}])
						p.nw.Pool.Get(cnt, &p.more[k])
					}
					p.gotTriples = true
				}
				rt.Sleep(runDelay[p.id])
				if badCirc != nil {
					// fail, then carry on: a circuit that was not compiled for this protocol (it has an
					// OR gate) is refused by every party; the network is then used for the real one
					if _, berr := p.nw.Run(badIn[p.id], badCirc, verbose); berr != nil {
						rt.Reach("fail-then-carry-on.unsupported-circuit-refused")
					}
				}
				p.out, p.runErr = p.nw.Run(in[p.id], circ, verbose)
				rt.Tracef("HARNESS party %d: Run returned %s err=%v", p.id, gen.FmtInts(p.out), p.runErr)
				if circ2 != nil && p.runErr == nil {
					p.out2, p.runErr2 = p.nw.Run(in2[p.id], circ2, verbose)
					p.ran2 = true
					rt.Tracef("HARNESS party %d: second Run returned %s err=%v", p.id, gen.FmtInts(p.out2), p.runErr2)
				}
				p.closeErr = p.nw.Close()
			})
		}
	})
	core.Finish(res, rr)
	res.Nontrivial = rr.Switches > 4
	res.Reach[fmt.Sprintf("parties=%d", n)]++
	if src != "" {
		res.Reach["circuit.compiled-for-GMW"]++
	}
	if circ.Stats[circuit.NumLevels] > 3 {
		res.Reach["circuit.and-levels>3"]++
	}
	if res.Inconclusive != "" {
		return res
	}
	fail := func(clause, detail string) *core.Result {
		res.Fail = &core.Failure{Clause: clause, Detail: detail}
		return res
	}
	if len(rr.Crashed) > 0 {
		return fail("panic", core.CrashDetail(rr))
	}
	for _, p := range ps {
		if p.joinErr != nil {
			return fail("join-error", fmt.Sprintf("party %d: %v", p.id, p.joinErr))
		}
		if p.connectErr != nil {
			return fail("connect-error", fmt.Sprintf("party %d: Connect: %v", p.id, p.connectErr))
		}
		if p.runErr != nil {
			return fail("run-error", fmt.Sprintf("party %d: Run: %v", p.id, p.runErr))
		}
	}
	for _, p := range ps {
		if !p.done {
			return fail("did-not-terminate", fmt.Sprintf("party %d did not complete the protocol (%v); unfinished tasks: %v", p.id, rr.Outcome, rr.Blocked))
		}
	}
	for _, p := range ps {
		if p.closeErr != nil {
			return fail("close-error", fmt.Sprintf("party %d: Close: %v", p.id, p.closeErr))
		}
	}
	if tripleN > 0 {
		words := ps[0].triples.Words
		for _, p := range ps {
			if p.triples.Words != words || p.triples.Words*64 < tripleN {
				return fail("triple-count", fmt.Sprintf("Pool.Get(%d): party 0 got %d words, party %d got %d words", tripleN, words, p.id, p.triples.Words))
			}
		}
		for wd := 0; wd < words; wd++ {
			var a, b, c uint64
			for _, p := range ps {
				a ^= p.triples.A[wd]
				b ^= p.triples.B[wd]
				c ^= p.triples.C[wd]
			}
			if a&b != c {
				return fail("invalid-triple", fmt.Sprintf("Pool.Get(%d) with %d parties, word %d: (xor a)&(xor b) = %#x, xor c = %#x (bits %#x differ)", tripleN, n, wd, a&b, c, a&b^c))
			}
		}
		res.Reach["triples.checked-words"] += words
		for k, cnt := range getsMore {
			words := ps[0].more[k].Words
			for _, p := range ps {
				if p.more[k].Words != words || words*64 < cnt {
					return fail("triple-count", fmt.Sprintf("take %d of the case, Pool.Get(%d) after Pool.Get(%d)...: party 0 got %d words, party %d got %d words", k+2, cnt, tripleN, words, p.id, p.more[k].Words))
				}
			}
			for wd := 0; wd < words; wd++ {
				var a, b, c uint64
				for _, p := range ps {
					a ^= p.more[k].A[wd]
					b ^= p.more[k].B[wd]
					c ^= p.more[k].C[wd]
				}
				if a&b != c {
					return fail("invalid-triple", fmt.Sprintf("take %d of the case (Pool.Get(%d), earlier takes %d %v) with %d parties, word %d: (xor a)&(xor b) = %#x, xor c = %#x", k+2, cnt, tripleN, getsMore[:k], n, wd, a&b, c))
				}
			}
			res.Reach["triples.checked-words"] += words
		}
	}
	for _, p := range ps {
		if !gen.EqualOutputs(p.out, want) {
			return fail("wrong-output", fmt.Sprintf("party %d returned %s, plain evaluation gives %s", p.id, gen.FmtInts(p.out), gen.FmtInts(want)))
		}
	}
	if circ2 != nil {
		for _, p := range ps {
			if !p.ran2 {
				return fail("did-not-terminate", fmt.Sprintf("party %d never got to the second Run on the network", p.id))
			}
			if p.runErr2 != nil {
				return fail("run-error", fmt.Sprintf("party %d: second Run on the same network (%s): %v", p.id, gen.Describe(circ2), p.runErr2))
			}
			if !gen.EqualOutputs(p.out2, want2) {
				return fail("wrong-output", fmt.Sprintf("second Run on the same network (%s): party %d returned %s, plain evaluation gives %s", gen.Describe(circ2), p.id, gen.FmtInts(p.out2), gen.FmtInts(want2)))
			}
		}
	}
	return res
}
