// Package core holds what all simulated worlds share: the run result type,
// the registry, and helpers that draw transport configurations from the tape.
package core

import (
	"fmt"
	"sort"
	"time"

	"verifsim/sim/rt"
	"verifsim/sim/simnet"
	"verifsim/sim/simrand"
)

// Failure is a violated oracle clause.
type Failure struct {
	Clause string // stable identifier of the oracle clause (shrinking keeps it fixed)
	Detail string
	// Key identifies the specific failing location/history for the
	// known-findings file ("" = Clause).
	Key string
}

func (f *Failure) String() string { return f.Clause + ": " + f.Detail }

// Result is the verdict and the measurements of one simulated run.
type Result struct {
	Fail         *Failure
	Discard      bool // generated case was outside the property's precondition
	Hash         string
	Outcome      string
	Steps        int
	Switches     int
	Tasks        int
	SimTime      time.Duration
	Reach        map[string]int
	Faults       map[string]int // fault kinds that actually fired
	Class        string         // run class (for the evidence breakdown)
	Nontrivial   bool
	Sample       any // the case written out (evidence samples, replay files)
	Trace        []string
	Inconclusive string // harness trouble (step cap, ...): never a verdict
}

// World is one simulated world serving one property.
type World interface {
	// Run executes one run, drawing every decision from t.
	Run(t *rt.Tape, trace bool) *Result
}

// Factory creates the world of a property for a tier.
type Factory func(tier string) World

var registry = map[string]Factory{}

// Register makes a world available under a property id.
func Register(prop string, f Factory) { registry[prop] = f }

// Lookup returns the factory for a property.
func Lookup(prop string) Factory { return registry[prop] }

// Props lists registered properties.
func Props() []string {
	var out []string
	for k := range registry {
		out = append(out, k)
	}
	sort.Strings(out)
	return out
}

var children = map[string]func([]byte) []byte{}

// RegisterChild registers a handler that a world runs in a separate worker
// process (worker subcommand "child": stdin -> handler -> stdout).
func RegisterChild(prop string, f func([]byte) []byte) { children[prop] = f }

// Child returns the child handler of a property.
func Child(prop string) func([]byte) []byte { return children[prop] }

// BeginRun resets per-run global state of the simulator seams. It must be
// the first thing a world does inside Run.
func BeginRun(t *rt.Tape) uint64 {
	seed := uint64(t.Raw(rt.SGen, nil))<<32 | uint64(t.Raw(rt.SGen, nil))
	simrand.Reseed(seed)
	simnet.Reset()
	rt.ResetKnobs()
	return seed
}

// Caps are the socket-buffer capacities explored.
var Caps = []int{65536, 0, 1, 16, 4096, 1 << 20, -1}

// TCPCaps are capacities a real TCP socket can have (net-based worlds).
var TCPCaps = []int{65536, 4096, 1 << 20, -1, 16384}

// DrawDir draws one direction's configuration. small reports whether the
// configuration makes large payloads expensive (byte-wise delivery).
func DrawDir(t *rt.Tape, caps []int) (cfg simnet.DirConfig, small bool) {
	cfg.Cap = caps[t.Choose(rt.SGen, len(caps))]
	switch t.Choose(rt.SGen, 6) {
	case 0:
		cfg.Frag = simnet.FragWhole
	case 1:
		cfg.Frag = simnet.FragOne
		small = true
	case 2:
		cfg.Frag = simnet.FragMaxK
		cfg.FragK = []int{2, 3, 15, 16, 17, 1000, 4096, 65535}[t.Choose(rt.SGen, 8)]
		if cfg.FragK < 1000 {
			small = true
		}
	case 3, 4:
		cfg.Frag = simnet.FragRandom
	case 5:
		cfg.Frag = simnet.FragField
		small = true
	}
	switch t.Choose(rt.SGen, 4) {
	case 0, 1:
	case 2:
		cfg.LatMax = time.Duration(1+t.Choose(rt.SGen, 50)) * time.Millisecond
	case 3:
		cfg.LatMax = time.Duration(1+t.Choose(rt.SGen, 50)) * time.Millisecond
		cfg.LatRand = true
	}
	if cfg.Cap >= 0 && cfg.Cap <= 16 {
		small = true
	}
	// one direction in eight: delivery pauses once, for seconds to a quarter of an hour, at a
	// tape-chosen place of the stream (offsets are spread over the orders of magnitude)
	if t.Choose(rt.SGen, 8) == 0 {
		cfg.StallOff = uint64(t.Choose(rt.SGen, 1<<uint(4+t.Choose(rt.SGen, 16))))
		cfg.StallFor = []time.Duration{2 * time.Second, 40 * time.Second, 15 * time.Minute}[t.Choose(rt.SGen, 3)]
	}
	return cfg, small
}

// DescribeDir renders a direction configuration.
func DescribeDir(c simnet.DirConfig) string {
	frag := []string{"whole", "1byte", "max" + fmt.Sprint(c.FragK), "random", "field"}[c.Frag]
	lat := "0"
	if c.LatMax > 0 {
		lat = c.LatMax.String()
		if c.LatRand {
			lat = "0.." + lat
		}
	}
	capS := fmt.Sprint(c.Cap)
	if c.Cap < 0 {
		capS = "unbounded"
	}
	if c.StallFor > 0 {
		lat += fmt.Sprintf(" stall=%v@%d", c.StallFor, c.StallOff)
	}
	if c.EOFWithData {
		lat += " last-bytes-come-with-EOF"
	}
	if c.EmptyReads > 0 {
		return fmt.Sprintf("cap=%s frag=%s lat=%s empty-reads=1/%d", capS, frag, lat, c.EmptyReads)
	}
	return fmt.Sprintf("cap=%s frag=%s lat=%s", capS, frag, lat)
}

// Finish fills the kernel measurements of a result.
func Finish(res *Result, rr rt.Result) {
	res.Hash = rr.Hash
	res.Outcome = rr.Outcome.String()
	res.Steps = rr.Steps
	res.Switches = rr.Switches
	res.Tasks = rr.Tasks
	res.SimTime = rr.SimTime
	if res.Reach == nil {
		res.Reach = map[string]int{}
	}
	for k, v := range rr.Reach {
		res.Reach[k] += v
	}
	res.Trace = rr.Trace
	if rr.Outcome == rt.StepCap {
		res.Inconclusive = "step cap reached"
	}
	if rr.Outcome == rt.Livelock {
		res.Reach["kernel.livelock"]++
	}
}

// FoldEnvFaults adds the environment faults that fired in a run (counted by the simulator while
// they happened, not merely configured) to the run's fault statistics. The runner calls it once
// per run, after the world returned.
func FoldEnvFaults(res *Result) {
	if res == nil {
		return
	}
	for reach, fault := range envFaults {
		if n := res.Reach[reach]; n > 0 {
			if res.Faults == nil {
				res.Faults = map[string]int{}
			}
			res.Faults[fault] += n
		}
	}
}

// envFaults maps the kernel-level reach counters of environment behaviours to fault names.
var envFaults = map[string]string{
	"pipe.delivery-stalled":                                      "delivery-stall (2 s .. 15 min)",
	"randomness-source.stalled-read":                             "randomness-source-stall",
	"ot-io.send-blocked-before-consuming-payload":                "send-blocks-before-consuming-payload",
	"ssa-writer.blocked":                                         "writer-blocks",
	"net.deadline-exceeded":                                      "deadline-exceeded",
	"receiver.busy-before-a-receive":                             "receiver-busy (1 s .. 10 min)",
	"fail-then-carry-on.first-session-failed":                    "first-session-failed (connection reset or entropy failure)",
	"fail-then-carry-on.sender-saw-the-failure":                  "connection-reset-in-first-batch",
	"fail-then-carry-on.garbler-saw-the-failure":                 "connection-reset-in-first-session",
	"fail-then-carry-on.first-join-failed":                       "address-in-use-at-first-join",
	"fail-then-carry-on.unsupported-circuit-refused":             "unsupported-circuit-refused",
	"fail-then-carry-on.marshal-reported-the-write-error":        "write-error (full disk)",
	"fail-then-carry-on.round3-failed-for-lack-of-randomness":    "entropy-failure-in-round-3",
	"fail-then-carry-on.compilation-failed-on-the-same-compiler": "failed-compilation-first",
	"fail-then-carry-on.receive-refused-a-wrong-result-length":   "misused-receive-refused",
}

// NoProgressDefault is the livelock bound used by worlds whose tasks only
// ever wait on bytes, messages and locks (no compute loops with yields).
const NoProgressDefault = 1_000_000

// Stuck reports whether the run ended without all tasks finishing.
func Stuck(rr rt.Result) bool { return rr.Outcome == rt.Deadlock || rr.Outcome == rt.Livelock }

// CrashDetail renders the panics of crashed tasks.
func CrashDetail(rr rt.Result) string {
	s := ""
	for _, t := range rr.Crashed {
		s += fmt.Sprintf("task %s panicked: %v\n%s\n", t.ID, t.Panic, firstLines(t.Stack, 30))
	}
	return s
}

func firstLines(s string, n int) string {
	c := 0
	for i := range s {
		if s[i] == '\n' {
			c++
			if c == n {
				return s[:i]
			}
		}
	}
	return s
}
