// Package leak is the simulated world for C04: a monitor over the complete
// garbler->evaluator byte stream of whole-circuit sessions, streaming
// sessions and the sha2pc round messages. It learns the garbler's secret
// offset R without looking inside the garbler (from the wires handed to the
// OT layer, or by differential replay of an exactly repeatable run) and
// searches the transcript, at every byte offset, for R itself and for two
// 16-byte values that differ by R.
package leak

import (
	"crypto/elliptic"
	"fmt"
	"io"
	"math/big"
	"time"

	"github.com/markkurossi/mpc/ot"
	"github.com/markkurossi/mpc/sha2pc"

	"verifsim/gen"
	"verifsim/sim/rt"
	"verifsim/sim/simnet"
	"verifsim/sim/simrand"
	"verifsim/worlds/core"
	"verifsim/worlds/sha2pcworld"
	"verifsim/worlds/stream"
	"verifsim/worlds/twopc"
)

func init() {
	core.Register("C04", func(tier string) core.World { return &world{tier: tier} })
}

type world struct {
	tier   string
	reseed uint64
}

// Leak is one finding of the monitor.
type Leak struct {
	Kind       string // "offset-R", "label-pair"
	OffA, OffB int
}

// Scan searches transcript for R and for pairs of windows differing by R.
func Scan(transcript []byte, r [16]byte, max int) []Leak {
	var out []Leak
	if len(transcript) < 16 {
		return nil
	}
	idx := make(map[[16]byte]int, len(transcript))
	var w [16]byte
	for i := 0; i+16 <= len(transcript); i++ {
		copy(w[:], transcript[i:i+16])
		if _, ok := idx[w]; !ok {
			idx[w] = i
		}
	}
	if off, ok := idx[r]; ok {
		out = append(out, Leak{Kind: "offset-R", OffA: off, OffB: off})
	}
	var x [16]byte
	for i := 0; i+16 <= len(transcript) && len(out) < max; i++ {
		for j := 0; j < 16; j++ {
			x[j] = transcript[i+j] ^ r[j]
		}
		if off, ok := idx[x]; ok && off > i {
			out = append(out, Leak{Kind: "label-pair", OffA: i, OffB: off})
		}
	}
	return out
}

func labelBytes(l ot.Label) (b [16]byte) {
	var ld ot.LabelData
	l.GetData(&ld)
	copy(b[:], ld[:])
	return
}

// offsetFromWires derives R from wires handed to the OT layer; all wires must
// give the same value.
func offsetFromWires(wires []ot.Wire) (r [16]byte, ok bool, consistent bool) {
	consistent = true
	for i, w := range wires {
		x := w.L0
		x.Xor(w.L1)
		b := labelBytes(x)
		if i == 0 {
			r, ok = b, true
		} else if b != r {
			consistent = false
		}
	}
	return
}

type sample struct {
	World      string
	Case       any
	Transcript int
}

func (w *world) Run(t *rt.Tape, trace bool) *core.Result {
	res := &core.Result{Reach: map[string]int{}}
	w.reseed = core.BeginRun(t)
	switch t.Choose(rt.SGen, 8) {
	case 0, 1, 2, 3:
		return w.whole(t, trace, res)
	case 4, 5, 6:
		return w.streaming(t, trace, res)
	default:
		return w.sha2pc(t, trace, res)
	}
}

func report(res *core.Result, worldName string, leaks []Leak, transcript []byte) {
	if len(leaks) == 0 {
		return
	}
	l := leaks[0]
	res.Fail = &core.Failure{Clause: "offset-leaked:" + l.Kind,
		Detail: fmt.Sprintf("%s: %d finding(s); first: %s at byte offsets %d and %d of the %d-byte garbler->evaluator transcript (%x / %x)", worldName, len(leaks), l.Kind, l.OffA, l.OffB, len(transcript), transcript[l.OffA:l.OffA+16], transcript[l.OffB:l.OffB+16])}
}

// clearLabelOfOTWire reports a wire handed to the OT layer one of whose labels
// also travels in the clear: the evaluator then holds one label in the clear
// and can choose the other one by OT, i.e. both labels of the wire.
func clearLabelOfOTWire(transcript []byte, wires []ot.Wire) (int, int, bool) {
	if len(transcript) < 16 || len(wires) == 0 {
		return 0, 0, false
	}
	idx := make(map[[16]byte]int, len(transcript))
	var w [16]byte
	for i := 0; i+16 <= len(transcript); i++ {
		copy(w[:], transcript[i:i+16])
		if _, ok := idx[w]; !ok {
			idx[w] = i
		}
	}
	for i, wire := range wires {
		if off, ok := idx[labelBytes(wire.L0)]; ok {
			return i, off, true
		}
		if off, ok := idx[labelBytes(wire.L1)]; ok {
			return i, off, true
		}
	}
	return 0, 0, false
}

func (w *world) whole(t *rt.Tape, trace bool, res *core.Result) *core.Result {
	pipe, small := twopc.DrawPipe(t)
	pipe.Record = true
	opts := gen.CircuitOpts{}
	if small {
		opts.MaxGates = 60
	} else {
		opts.WideAny = 1100 // a thousand and more input wires: whatever is done per block of labels happens more than once
	}
	circ := gen.Circuit(t, opts)
	in := gen.Inputs(t, circ)
	kind := twopc.DrawOT(t, w.tier)
	if small && kind != twopc.OTCO {
		kind = twopc.OTCO
	}
	if circ.Inputs[1].Type.Bits > 64 && (kind == twopc.OTRSA1024 || kind == twopc.OTRSA2048) {
		kind = twopc.OTCOT // hundreds of RSA transfers would dominate the run
	}
	if circ.Inputs.Size() >= 1000 {
		res.Reach["whole-circuit.thousand-input-wires"]++
	}
	tamper := t.Choose(rt.SGen, 4) == 0
	// In a quarter of the cases the garbler's randomness source delivers short
	// reads at every multiple of a block size that is itself a multiple of 16
	// (a buffered reader): the label-sized reads of the code stay whole, a
	// larger bulk read would not.
	var garbleRand func(io.Reader) io.Reader
	if t.Choose(rt.SGen, 4) == 0 {
		// (also blocks shorter than a label - a source that hands out 1, 5 or 7 bytes at a time is as
		// legal an io.Reader as a buffered one)
		block := []int{64, 1024, 4096, 160, 1, 5, 7, 24}[t.Choose(rt.SGen, 8)]
		garbleRand = func(r io.Reader) io.Reader { return &simrand.ShortReader{R: r, Block: block} }
		res.Reach["garbler-randomness.short-reads"]++
	}
	sess := twopc.Session{Circ: circ, X: new(big.Int).Set(in[0]), Y: new(big.Int).Set(in[1]), OT: kind, Pipe: pipe, Trace: trace && !tamper, GarbleRand: garbleRand}
	// One untampered case in four: the garbler process serves a second session
	// of the same circuit afterwards (same OT object, same env.Config, other
	// inputs). Whatever it keeps between sessions must not make the two
	// transcripts together reveal what neither reveals alone.
	if !tamper && !small && t.Choose(rt.SGen, 4) == 0 {
		in2 := gen.Inputs(t, circ)
		in2[0].Xor(in[0], new(big.Int).Sub(new(big.Int).Lsh(big.NewInt(1), uint(circ.Inputs[0].Type.Bits)), big.NewInt(1))) // every garbler input bit differs
		sess.Next = &twopc.Session{Circ: circ, X: in2[0], Y: in2[1]}
		sess.SameConn = t.Choose(rt.SGen, 2) == 0
		if sess.SameConn && (kind == twopc.OTCOT || kind == twopc.OTCOTMal) {
			sess.OT = map[int]int{twopc.OTCOT: twopc.OTCOTShared, twopc.OTCOTMal: twopc.OTCOTMalShared}[kind]
		} else if !sess.SameConn && kind != twopc.OTCO && kind != twopc.OTRSA1024 {
			sess.OT = twopc.OTCO
		}
		kind = sess.OT
		res.Reach["whole-circuit.two-sessions"]++
	}
	// Another untampered case in four: the garbler process serves a second client at the same
	// time (own connection and OT object, the same env.Config and circuit value, every garbler
	// input bit flipped). What the process sends on both connections, taken together, must not
	// contain both labels of a wire either - an evaluator may take part in both sessions.
	if !tamper && !small && sess.Next == nil && kind != twopc.OTRSA1024 && kind != twopc.OTRSA2048 && t.Choose(rt.SGen, 3) == 0 {
		in3 := gen.Inputs(t, circ)
		in3[0].Xor(in[0], new(big.Int).Sub(new(big.Int).Lsh(big.NewInt(1), uint(circ.Inputs[0].Type.Bits)), big.NewInt(1)))
		sess.Par = &twopc.Session{Circ: circ, X: in3[0], Y: in3[1]}
		sess.ParDelay = []time.Duration{0, 0, time.Millisecond, 20 * time.Millisecond}[t.Choose(rt.SGen, 4)]
		sess.RandStallOneIn = []int{0, 4, 16, 64}[t.Choose(rt.SGen, 4)]
		res.Reach["whole-circuit.concurrent-sessions"]++
	}
	o := twopc.Run(t, sess)
	core.Finish(res, o.RR)
	res.Class = "whole-circuit ot=" + twopc.OTNames[kind]
	smp := sample{World: "whole-circuit", Case: twopc.Sample{Circuit: gen.Describe(circ), X: in[0].Text(16), Y: in[1].Text(16), OT: twopc.OTNames[kind]}, Transcript: len(o.GE)}
	res.Sample = smp
	res.Nontrivial = true
	if res.Inconclusive != "" {
		return res
	}
	if !o.GDone || o.GErr != nil || len(o.RR.Crashed) > 0 {
		res.Discard = true // a broken clean session is C02's business
		res.Reach[fmt.Sprintf("discard: whole-circuit session broken (done=%v err=%v crashed=%d next=%v)", o.GDone, o.GErr, len(o.RR.Crashed), sess.Next != nil)]++
		return res
	}
	if tamper {
		// A deviating evaluator, modelled as corruption of its request in transit:
		// the (wire offset, wire count) message that tells the garbler which wires
		// to transfer obliviously is rewritten. The session is replayed from the
		// same randomness with the altered request.
		n0, n1 := uint32(circ.Inputs[0].Type.Bits), uint32(circ.Inputs[1].Type.Bits)
		var pat [8]byte
		pat[0], pat[1], pat[2], pat[3] = byte(n0>>24), byte(n0>>16), byte(n0>>8), byte(n0)
		pat[4], pat[5], pat[6], pat[7] = byte(n1>>24), byte(n1>>16), byte(n1>>8), byte(n1)
		pos := -1
		for i := 0; i+8 <= len(o.EG); i++ {
			if string(o.EG[i:i+8]) == string(pat[:]) {
				pos = i
				break
			}
		}
		if pos < 0 {
			res.Reach["tamper.request-not-located"]++
			return res
		}
		newOff, newCnt := n0, n1
		switch t.Choose(rt.SFault, 5) {
		case 0:
			newOff = 0
		case 1:
			newOff = uint32(t.Choose(rt.SFault, int(n0)))
		case 2:
			newCnt = uint32(1 + t.Choose(rt.SFault, int(n1)+4))
		case 3:
			newOff = n0 + uint32(1+t.Choose(rt.SFault, 8))
		case 4:
			newOff, newCnt = 0, n0
		}
		var faults []simnet.Fault
		want := [8]byte{byte(newOff >> 24), byte(newOff >> 16), byte(newOff >> 8), byte(newOff), byte(newCnt >> 24), byte(newCnt >> 16), byte(newCnt >> 8), byte(newCnt)}
		for i := 0; i < 8; i++ {
			if m := pat[i] ^ want[i]; m != 0 {
				faults = append(faults, simnet.Fault{Kind: simnet.FaultFlip, Off: uint64(pos + i), Mask: m})
			}
		}
		if len(faults) == 0 {
			return res
		}
		seed := uint64(t.Seed)
		_ = seed
		simrand.Reseed(w.reseed)
		simnet.Reset()
		p2 := pipe
		p2.BA.Faults = faults
		o2 := twopc.Run(t, twopc.Session{Circ: circ, X: in[0], Y: in[1], OT: kind, Pipe: p2, Trace: trace, GarbleRand: garbleRand})
		res.Steps += o2.RR.Steps
		res.Hash = res.Hash[:32] + o2.RR.Hash[:32]
		if trace {
			res.Trace = o2.RR.Trace
		}
		res.Reach["tamper.ot-request-rewritten"]++
		if res.Faults == nil {
			res.Faults = map[string]int{}
		}
		res.Faults["ot-request-rewritten"]++
		smp.World = fmt.Sprintf("whole-circuit, evaluator's OT request rewritten in transit from (offset %d, count %d) to (offset %d, count %d)", n0, n1, newOff, newCnt)
		smp.Transcript = len(o2.GE)
		res.Sample = smp
		if wi, off, bad := clearLabelOfOTWire(o2.GE, o2.OTWires); bad {
			res.Fail = &core.Failure{Clause: "both-labels-obtainable",
				Detail: fmt.Sprintf("%s: the garbler handed %d wires to the OT layer, and a label of wire #%d of them also travels in the clear at byte offset %d of its transcript: the evaluator holds that label and can choose the other one by OT", smp.World, len(o2.OTWires), wi, off)}
			return res
		}
		if r, ok, _ := offsetFromWires(o2.OTWires); ok {
			report(res, smp.World, Scan(o2.GE, r, 8), o2.GE)
		}
		return res
	}
	r, ok, consistent := offsetFromWires(o.OTWires)
	if !ok {
		res.Discard = true
		res.Reach["discard: whole-circuit: no wire was handed to the OT layer"]++
		return res
	}
	if !consistent {
		res.Fail = &core.Failure{Clause: "offset-not-global", Detail: "the wires handed to the OT layer do not share one offset L0 xor L1"}
		return res
	}
	res.Reach["whole-circuit.transcripts-scanned"]++
	res.Reach["bytes-scanned"] += len(o.GE)
	if wi, off, bad := clearLabelOfOTWire(o.GE, o.OTWires); bad {
		res.Fail = &core.Failure{Clause: "both-labels-obtainable", Detail: fmt.Sprintf("a label of OT wire #%d also travels in the clear at byte offset %d", wi, off)}
		return res
	}
	report(res, "whole-circuit session", Scan(o.GE, r, 8), o.GE)
	if n := o.Par; n != nil && res.Fail == nil {
		if !n.GDone || n.GErr != nil {
			res.Reach["whole-circuit.concurrent-session-broken(C02's business)"]++
			return res
		}
		r2, ok2, cons2 := offsetFromWires(n.OTWires)
		if !ok2 {
			return res
		}
		if !cons2 {
			res.Fail = &core.Failure{Clause: "offset-not-global", Detail: "concurrent session: the wires handed to the OT layer do not share one offset L0 xor L1"}
			return res
		}
		both := append(append([]byte(nil), o.GE...), n.GE...)
		res.Reach["bytes-scanned"] += len(n.GE)
		report(res, "whole-circuit session served at the same time by the same garbler process", Scan(n.GE, r2, 8), n.GE)
		if res.Fail == nil {
			report(res, "two concurrent sessions of one garbler process taken together (offset of the first)", Scan(both, r, 8), both)
		}
		if res.Fail == nil && r2 != r {
			report(res, "two concurrent sessions of one garbler process taken together (offset of the second)", Scan(both, r2, 8), both)
		}
		if r2 == r {
			res.Reach["whole-circuit.concurrent-sessions-share-one-offset"]++
		}
	}
	if n := o.Next; n != nil && res.Fail == nil {
		if !n.GDone || n.GErr != nil {
			res.Reach["whole-circuit.second-session-broken(C02's business)"]++
			return res
		}
		r2, ok2, cons2 := offsetFromWires(n.OTWires)
		if !ok2 {
			return res
		}
		if !cons2 {
			res.Fail = &core.Failure{Clause: "offset-not-global", Detail: "second session: the wires handed to the OT layer do not share one offset L0 xor L1"}
			return res
		}
		both := append(append([]byte(nil), o.GE...), n.GE...)
		res.Reach["bytes-scanned"] += len(n.GE)
		report(res, "second whole-circuit session of the same garbler process", Scan(n.GE, r2, 8), n.GE)
		if res.Fail == nil {
			report(res, "two sessions of one garbler process taken together (offset of the first)", Scan(both, r, 8), both)
		}
		if res.Fail == nil {
			report(res, "two sessions of one garbler process taken together (offset of the second)", Scan(both, r2, 8), both)
		}
	}
	return res
}

func (w *world) streaming(t *rt.Tape, trace bool, res *core.Result) *core.Result {
	pipe, small := twopc.DrawPipe(t)
	pipe.Record = true
	for _, d := range []*simnet.DirConfig{&pipe.AB, &pipe.BA} {
		if d.Frag == simnet.FragOne {
			d.Frag = simnet.FragField
		}
	}
	prog, probe := stream.DrawProgram(t)
	if !small && t.Choose(rt.SGen, 8) == 0 {
		// arguments of 65 to 85 thousand bits: the labels of one argument span two 64Ki pages of the
		// streaming garbler's wire table
		src, pr := gen.MPCLLarge(t)
		prog, probe = stream.Program{Name: "generated", Src: src}, pr
		res.Reach["streaming.wide-arguments"]++
	}
	c := stream.Prepare(t, prog, probe)
	if c.Discard != "" || small && (c.Circ.NumGates > 2000 || c.Circ.Inputs.Size() > 600) || c.Circ.NumGates > 50000 {
		res.Discard = true
		why := c.Discard
		if why == "" {
			why = "program too large for this transport configuration"
		}
		if len(why) > 60 {
			why = why[:60]
		}
		res.Reach["discard: streaming: "+why]++
		return res
	}
	kind := []int{twopc.OTCO, twopc.OTCOT}[t.Choose(rt.SGen, 2)]
	if int(c.Circ.Inputs[1].Type.Bits) > 1500 {
		kind = twopc.OTCOT
	}
	o := stream.Run(t, c, kind, pipe, trace)
	core.Finish(res, o.RR)
	res.Class = "streaming"
	res.Sample = sample{World: "streaming", Case: stream.Sample{Program: prog.Name, In0: c.In[0], In1: c.In[1], Circuit: gen.Describe(c.Circ), OT: twopc.OTNames[kind]}, Transcript: len(o.GE)}
	res.Nontrivial = true
	if res.Inconclusive != "" {
		return res
	}
	if !o.GDone || o.GErr != nil || len(o.RR.Crashed) > 0 {
		// a clean session that breaks is C05's business - but what the garbler transmitted before it
		// broke is an execution of the protocol like any other: it is scanned, and only if that
		// finds nothing is the case put aside
		if r, ok, _ := offsetFromWires(o.OTWires); ok {
			if wi, off, bad := clearLabelOfOTWire(o.GE, o.OTWires); bad {
				res.Fail = &core.Failure{Clause: "both-labels-obtainable", Detail: fmt.Sprintf("streaming session (it failed later: garbler done=%v err=%v): the garbler handed %d wires to the OT layer, and a label of wire #%d of them also travels in the clear at byte offset %d of its transcript: the evaluator holds that label and can choose the other one by OT", o.GDone, o.GErr, len(o.OTWires), wi, off)}
				return res
			}
			if report(res, "streaming session that failed later", Scan(o.GE, r, 8), o.GE); res.Fail != nil {
				return res
			}
		}
		res.Discard = true // C05's business
		res.Reach["discard: streaming: clean session broken (C05's business)"]++
		return res
	}
	r, ok, consistent := offsetFromWires(o.OTWires)
	if !ok {
		res.Discard = true
		res.Reach["discard: streaming: no wire was handed to the OT layer"]++
		return res
	}
	if !consistent {
		res.Fail = &core.Failure{Clause: "offset-not-global", Detail: "the wires handed to the OT layer do not share one offset L0 xor L1"}
		return res
	}
	res.Reach["streaming.transcripts-scanned"]++
	res.Reach["bytes-scanned"] += len(o.GE)
	if wi, off, bad := clearLabelOfOTWire(o.GE, o.OTWires); bad {
		res.Fail = &core.Failure{Clause: "both-labels-obtainable", Detail: fmt.Sprintf("streaming session: the garbler handed %d wires to the OT layer, and a label of wire #%d of them also travels in the clear at byte offset %d of its transcript: the evaluator holds that label and can choose the other one by OT", len(o.OTWires), wi, off)}
		return res
	}
	report(res, "streaming session", Scan(o.GE, r, 8), o.GE)
	return res
}

// sha2pc has no OT object to spy on; R is learned by differential replay: the
// same garbler run from the same randomness with one input bit flipped
// transmits, for that wire, the other label - the two differ by exactly R.
func (w *world) sha2pc(t *rt.Tape, trace bool, res *core.Result) *core.Result {
	curve := elliptic.P256()
	if t.Choose(rt.SGen, 6) == 0 {
		curve = elliptic.P224()
	}
	rH := simrand.Stream("harness")
	a, b := sha2pcworld.DrawInput(t, rH), sha2pcworld.DrawInput(t, rH)
	res.Class = "sha2pc"
	res.Nontrivial = true
	var transcript []byte
	var r [16]byte
	var hintLo, hintHi, base int
	var failure *core.Failure
	seed := uint64(t.Raw(rt.SGen, nil))
	rr := rt.Run(rt.Config{Trace: trace}, t, func() {
		run := func(a [32]byte) (m1b, m3b []byte, m3 sha2pc.Round3Payload, err error) {
			rG := simrand.New(seed, "G")
			rE := simrand.New(seed, "E")
			m1, gs, err := sha2pc.GarblerRound1(rG, curve)
			if err != nil {
				return
			}
			if m1b, err = sha2pc.EncodeRound1(curve, m1); err != nil {
				return
			}
			m2, _, err := sha2pc.EvaluatorRound2(rE, curve, m1, b)
			if err != nil {
				return
			}
			if m3, err = sha2pc.GarblerRound3(rG, curve, gs, a, m2); err != nil {
				return
			}
			// the payload aliases reusable scratch of the package-level circuit: encode now
			m3b, err = sha2pc.EncodeRound3(m3)
			return
		}
		m1b, m3b, m3, err := run(a)
		if err != nil {
			failure = &core.Failure{Clause: "harness", Detail: err.Error()}
			return
		}
		l0 := labelBytes(m3.GarblerInputs[0])
		// where is the OutputHints field? encode the same payload with the hints
		// all-zero and all-one: the two encodings differ exactly in that field
		z, f := m3, m3
		z.OutputHints = make([]ot.Wire, len(m3.OutputHints))
		f.OutputHints = make([]ot.Wire, len(m3.OutputHints))
		ones := ot.Label{D0: ^uint64(0), D1: ^uint64(0)}
		for i := range f.OutputHints {
			f.OutputHints[i] = ot.Wire{L0: ones, L1: ones}
		}
		zb, err1 := sha2pc.EncodeRound3(z)
		fb, err2 := sha2pc.EncodeRound3(f)
		hintLo, hintHi = -1, -1
		if err1 == nil && err2 == nil && len(zb) == len(m3b) && len(fb) == len(m3b) {
			for i := range zb {
				if zb[i] != fb[i] {
					if hintLo < 0 {
						hintLo = i
					}
					hintHi = i + 1
				}
			}
		}
		a2 := a
		a2[0] ^= 1
		_, _, m3x, err := run(a2)
		if err != nil {
			failure = &core.Failure{Clause: "harness", Detail: err.Error()}
			return
		}
		l1 := labelBytes(m3x.GarblerInputs[0])
		for i := range r {
			r[i] = l0[i] ^ l1[i]
		}
		transcript = append(append([]byte(nil), m1b...), m3b...)
		base = len(m1b)
	})
	core.Finish(res, rr)
	res.Sample = sample{World: "sha2pc (round 1 + round 3 bytes)", Case: fmt.Sprintf("curve=%s a=%x b=%x", curve.Params().Name, a, b), Transcript: len(transcript)}
	if failure != nil || len(rr.Crashed) > 0 {
		res.Discard = true // C18's business
		res.Reach["discard: sha2pc: clean run broken (C18's business)"]++
		return res
	}
	if r == ([16]byte{}) {
		res.Inconclusive = "differential replay did not expose an offset"
		return res
	}
	res.Reach["sha2pc.transcripts-scanned"]++
	res.Reach["bytes-scanned"] += len(transcript)
	leaks := Scan(transcript, r, 4096)
	if len(leaks) == 0 {
		return res
	}
	inside := 0
	for _, l := range leaks {
		if l.Kind == "label-pair" && hintLo >= 0 && l.OffA >= base+hintLo && l.OffB+16 <= base+hintHi && l.OffB == l.OffA+16 {
			inside++
		}
	}
	report(res, "sha2pc round messages", leaks, transcript)
	if inside == len(leaks) {
		// every pair is an (L0, L1) entry of the Round 3 OutputHints field
		res.Fail.Key = "sha2pc-round3-outputhints-both-labels"
		res.Fail.Detail = fmt.Sprintf("Round 3 OutputHints field (bytes %d..%d of the Round 3 message) carries %d adjacent label pairs differing by R. ", hintLo, hintHi, inside) + res.Fail.Detail
	} else {
		res.Fail.Detail = fmt.Sprintf("%d of %d findings lie outside the Round 3 OutputHints field (bytes %d..%d). ", len(leaks)-inside, len(leaks), hintLo, hintHi) + res.Fail.Detail
	}
	return res
}
