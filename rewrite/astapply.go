// Copyright 2017 The Go Authors. All rights reserved.
// Use of this source code is governed by a BSD-style
// license that can be found in the LICENSE file.

package rewrite

import (
	"fmt"
	"go/ast"
	"reflect"
	"sort"
)

// An ApplyFunc is invoked by Apply for each node n, even if n is nil,
// before and/or after the node's children, using a Cursor describing
// the current node and providing operations on it.
//
// The return value of ApplyFunc controls the syntax tree traversal.
// See Apply for details.
type ApplyFunc func(*Cursor) bool

// Apply traverses a syntax tree recursively, starting with root,
// and calling pre and post for each node as described below.
// Apply returns the syntax tree, possibly modified.
//
// If pre is not nil, it is called for each node before the node's
// children are traversed (pre-order). If pre returns false, no
// children are traversed, and post is not called for that node.
//
// If post is not nil, and a prior call of pre didn't return false,
// post is called for each node after its children are traversed
// (post-order). If post returns false, traversal is terminated and
// Apply returns immediately.
//
// Only fields that refer to AST nodes are considered children;
// i.e., token.Pos, Scopes, Objects, and fields of basic types
// (strings, etc.) are ignored.
//
// Children are traversed in the order in which they appear in the
// respective node's struct definition. A package's files are
// traversed in the filenames' alphabetical order.
func Apply(root ast.Node, pre, post ApplyFunc) (result ast.Node) {
	parent := &struct{ ast.Node }{root}
	defer func() {
		if r := recover(); r != nil && r != abort {
			panic(r)
		}
		result = parent.Node
	}()
	a := &application{pre: pre, post: post}
	a.apply(parent, "Node", nil, root)
	return
}

var abort = new(int) // singleton, to signal termination of Apply

// A Cursor describes a node encountered during Apply.
// Information about the node and its parent is available
// from the Node, Parent, Name, and Index methods.
//
// If p is a variable of type and value of the current parent node
// c.Parent(), and f is the field identifier with name c.Name(),
// the following invariants hold:
//
//	p.f            == c.Node()  if c.Index() <  0
//	p.f[c.Index()] == c.Node()  if c.Index() >= 0
//
// The methods Replace, Delete, InsertBefore, and InsertAfter
// can be used to change the AST without disrupting Apply.
type Cursor struct {
	parent ast.Node
	name   string
	iter   *iterator // valid if non-nil
	node   ast.Node
}

// Node returns the current Node.
func (c *Cursor) Node() ast.Node { return c.node }

// Parent returns the parent of the current Node.
func (c *Cursor) Parent() ast.Node { return c.parent }

// Name returns the name of the parent Node field that contains the current Node.
// If the parent is a *ast.Package and the current Node is a *ast.File, Name returns
// the filename for the current Node.
func (c *Cursor) Name() string { return c.name }

// Index reports the index >= 0 of the current Node in the slice of Nodes that
// contains it, or a value < 0 if the current Node is not part of a slice.
// The index of the current node changes if InsertBefore is called while
// processing the current node.
func (c *Cursor) Index() int {
	if c.iter != nil {
		return c.iter.index
	}
	return -1
}

// field returns the current node's parent field value.
func (c *Cursor) field() reflect.Value {
	return reflect.Indirect(reflect.ValueOf(c.parent)).FieldByName(c.name)
}

// Replace replaces the current Node with n.
// The replacement node is not walked by Apply.
func (c *Cursor) Replace(n ast.Node) {
	if _, ok := c.node.(*ast.File); ok {
		file, ok := n.(*ast.File)
		if !ok {
			panic("attempt to replace *ast.File with non-*ast.File")
		}
		c.parent.(*ast.Package).Files[c.name] = file
		return
	}

	v := c.field()
	if i := c.Index(); i >= 0 {
		v = v.Index(i)
	}
	v.Set(reflect.ValueOf(n))
}

// Delete deletes the current Node from its containing slice.
// If the current Node is not part of a slice, Delete panics.
// As a special case, if the current node is a package file,
// Delete removes it from the package's Files map.
func (c *Cursor) Delete() {
	if _, ok := c.node.(*ast.File); ok {
		delete(c.parent.(*ast.Package).Files, c.name)
		return
	}

	i := c.Index()
	if i < 0 {
		panic("Delete node not contained in slice")
	}
	v := c.field()
	l := v.Len()
	reflect.Copy(v.Slice(i, l), v.Slice(i+1, l))
	v.Index(l - 1).Set(reflect.Zero(v.Type().Elem()))
	v.SetLen(l - 1)
	c.iter.step--
}

// InsertAfter inserts n after the current Node in its containing slice.
// If the current Node is not part of a slice, InsertAfter panics.
// Apply does not walk n.
func (c *Cursor) InsertAfter(n ast.Node) {
	i := c.Index()
	if i < 0 {
		panic("InsertAfter node not contained in slice")
	}
	v := c.field()
	v.Set(reflect.Append(v, reflect.Zero(v.Type().Elem())))
	l := v.Len()
	reflect.Copy(v.Slice(i+2, l), v.Slice(i+1, l))
	v.Index(i + 1).Set(reflect.ValueOf(n))
	c.iter.step++
}

// InsertBefore inserts n before the current Node in its containing slice.
// If the current Node is not part of a slice, InsertBefore panics.
// Apply will not walk n.
func (c *Cursor) InsertBefore(n ast.Node) {
	i := c.Index()
	if i < 0 {
		panic("InsertBefore node not contained in slice")
	}
	v := c.field()
	v.Set(reflect.Append(v, reflect.Zero(v.Type().Elem())))
	l := v.Len()
	reflect.Copy(v.Slice(i+1, l), v.Slice(i, l))
	v.Index(i).Set(reflect.ValueOf(n))
	c.iter.index++
}

// application carries all the shared data so we can pass it around cheaply.
type application struct {
	pre, post ApplyFunc
	cursor    Cursor
	iter      iterator
}

func (a *application) apply(parent ast.Node, name string, iter *iterator, n ast.Node) {
	// convert typed nil into untyped nil
	if v := reflect.ValueOf(n); v.Kind() == reflect.Ptr && v.IsNil() {
		n = nil
	}

	// avoid heap-allocating a new cursor for each apply call; reuse a.cursor instead
	saved := a.cursor
	a.cursor.parent = parent
	a.cursor.name = name
	a.cursor.iter = iter
	a.cursor.node = n

	if a.pre != nil && !a.pre(&a.cursor) {
		a.cursor = saved
		return
	}

	// walk children
	// (the order of the cases matches the order of the corresponding node types in go/ast)
	switch n := n.(type) {
	case nil:
		// nothing to do

	// Comments and fields
	case *ast.Comment:
		// nothing to do

	case *ast.CommentGroup:
		if n != nil {
			a.applyList(n, "List")
		}

	case *ast.Field:
		a.apply(n, "Doc", nil, n.Doc)
		a.applyList(n, "Names")
		a.apply(n, "Type", nil, n.Type)
		a.apply(n, "Tag", nil, n.Tag)
		a.apply(n, "Comment", nil, n.Comment)

	case *ast.FieldList:
		a.applyList(n, "List")

	// Expressions
	case *ast.BadExpr, *ast.Ident, *ast.BasicLit:
		// nothing to do

	case *ast.Ellipsis:
		a.apply(n, "Elt", nil, n.Elt)

	case *ast.FuncLit:
		a.apply(n, "Type", nil, n.Type)
		a.apply(n, "Body", nil, n.Body)

	case *ast.CompositeLit:
		a.apply(n, "Type", nil, n.Type)
		a.applyList(n, "Elts")

	case *ast.ParenExpr:
		a.apply(n, "X", nil, n.X)

	case *ast.SelectorExpr:
		a.apply(n, "X", nil, n.X)
		a.apply(n, "Sel", nil, n.Sel)

	case *ast.IndexExpr:
		a.apply(n, "X", nil, n.X)
		a.apply(n, "Index", nil, n.Index)

	case *ast.IndexListExpr:
		a.apply(n, "X", nil, n.X)
		a.applyList(n, "Indices")

	case *ast.SliceExpr:
		a.apply(n, "X", nil, n.X)
		a.apply(n, "Low", nil, n.Low)
		a.apply(n, "High", nil, n.High)
		a.apply(n, "Max", nil, n.Max)

	case *ast.TypeAssertExpr:
		a.apply(n, "X", nil, n.X)
		a.apply(n, "Type", nil, n.Type)

	case *ast.CallExpr:
		a.apply(n, "Fun", nil, n.Fun)
		a.applyList(n, "Args")

	case *ast.StarExpr:
		a.apply(n, "X", nil, n.X)

	case *ast.UnaryExpr:
		a.apply(n, "X", nil, n.X)

	case *ast.BinaryExpr:
		a.apply(n, "X", nil, n.X)
		a.apply(n, "Y", nil, n.Y)

	case *ast.KeyValueExpr:
		a.apply(n, "Key", nil, n.Key)
		a.apply(n, "Value", nil, n.Value)

	// Types
	case *ast.ArrayType:
		a.apply(n, "Len", nil, n.Len)
		a.apply(n, "Elt", nil, n.Elt)

	case *ast.StructType:
		a.apply(n, "Fields", nil, n.Fields)

	case *ast.FuncType:
		if tparams := n.TypeParams; tparams != nil {
			a.apply(n, "TypeParams", nil, tparams)
		}
		a.apply(n, "Params", nil, n.Params)
		a.apply(n, "Results", nil, n.Results)

	case *ast.InterfaceType:
		a.apply(n, "Methods", nil, n.Methods)

	case *ast.MapType:
		a.apply(n, "Key", nil, n.Key)
		a.apply(n, "Value", nil, n.Value)

	case *ast.ChanType:
		a.apply(n, "Value", nil, n.Value)

	// Statements
	case *ast.BadStmt:
		// nothing to do

	case *ast.DeclStmt:
		a.apply(n, "Decl", nil, n.Decl)

	case *ast.EmptyStmt:
		// nothing to do

	case *ast.LabeledStmt:
		a.apply(n, "Label", nil, n.Label)
		a.apply(n, "Stmt", nil, n.Stmt)

	case *ast.ExprStmt:
		a.apply(n, "X", nil, n.X)

	case *ast.SendStmt:
		a.apply(n, "Chan", nil, n.Chan)
		a.apply(n, "Value", nil, n.Value)

	case *ast.IncDecStmt:
		a.apply(n, "X", nil, n.X)

	case *ast.AssignStmt:
		a.applyList(n, "Lhs")
		a.applyList(n, "Rhs")

	case *ast.GoStmt:
		a.apply(n, "Call", nil, n.Call)

	case *ast.DeferStmt:
		a.apply(n, "Call", nil, n.Call)

	case *ast.ReturnStmt:
		a.applyList(n, "Results")

	case *ast.BranchStmt:
		a.apply(n, "Label", nil, n.Label)

	case *ast.BlockStmt:
		a.applyList(n, "List")

	case *ast.IfStmt:
		a.apply(n, "Init", nil, n.Init)
		a.apply(n, "Cond", nil, n.Cond)
		a.apply(n, "Body", nil, n.Body)
		a.apply(n, "Else", nil, n.Else)

	case *ast.CaseClause:
		a.applyList(n, "List")
		a.applyList(n, "Body")

	case *ast.SwitchStmt:
		a.apply(n, "Init", nil, n.Init)
		a.apply(n, "Tag", nil, n.Tag)
		a.apply(n, "Body", nil, n.Body)

	case *ast.TypeSwitchStmt:
		a.apply(n, "Init", nil, n.Init)
		a.apply(n, "Assign", nil, n.Assign)
		a.apply(n, "Body", nil, n.Body)

	case *ast.CommClause:
		a.apply(n, "Comm", nil, n.Comm)
		a.applyList(n, "Body")

	case *ast.SelectStmt:
		a.apply(n, "Body", nil, n.Body)

	case *ast.ForStmt:
		a.apply(n, "Init", nil, n.Init)
		a.apply(n, "Cond", nil, n.Cond)
		a.apply(n, "Post", nil, n.Post)
		a.apply(n, "Body", nil, n.Body)

	case *ast.RangeStmt:
		a.apply(n, "Key", nil, n.Key)
		a.apply(n, "Value", nil, n.Value)
		a.apply(n, "X", nil, n.X)
		a.apply(n, "Body", nil, n.Body)

	// Declarations
	case *ast.ImportSpec:
		a.apply(n, "Doc", nil, n.Doc)
		a.apply(n, "Name", nil, n.Name)
		a.apply(n, "Path", nil, n.Path)
		a.apply(n, "Comment", nil, n.Comment)

	case *ast.ValueSpec:
		a.apply(n, "Doc", nil, n.Doc)
		a.applyList(n, "Names")
		a.apply(n, "Type", nil, n.Type)
		a.applyList(n, "Values")
		a.apply(n, "Comment", nil, n.Comment)

	case *ast.TypeSpec:
		a.apply(n, "Doc", nil, n.Doc)
		a.apply(n, "Name", nil, n.Name)
		if tparams := n.TypeParams; tparams != nil {
			a.apply(n, "TypeParams", nil, tparams)
		}
		a.apply(n, "Type", nil, n.Type)
		a.apply(n, "Comment", nil, n.Comment)

	case *ast.BadDecl:
		// nothing to do

	case *ast.GenDecl:
		a.apply(n, "Doc", nil, n.Doc)
		a.applyList(n, "Specs")

	case *ast.FuncDecl:
		a.apply(n, "Doc", nil, n.Doc)
		a.apply(n, "Recv", nil, n.Recv)
		a.apply(n, "Name", nil, n.Name)
		a.apply(n, "Type", nil, n.Type)
		a.apply(n, "Body", nil, n.Body)

	// Files and packages
	case *ast.File:
		a.apply(n, "Doc", nil, n.Doc)
		a.apply(n, "Name", nil, n.Name)
		a.applyList(n, "Decls")
		// Don't walk n.Comments; they have either been walked already if
		// they are Doc comments, or they can be easily walked explicitly.

	case *ast.Package:
		// collect and sort names for reproducible behavior
		var names []string
		for name := range n.Files {
			names = append(names, name)
		}
		sort.Strings(names)
		for _, name := range names {
			a.apply(n, name, nil, n.Files[name])
		}

	default:
		panic(fmt.Sprintf("Apply: unexpected node type %T", n))
	}

	if a.post != nil && !a.post(&a.cursor) {
		panic(abort)
	}

	a.cursor = saved
}

// An iterator controls iteration over a slice of nodes.
type iterator struct {
	index, step int
}

func (a *application) applyList(parent ast.Node, name string) {
	// avoid heap-allocating a new iterator for each applyList call; reuse a.iter instead
	saved := a.iter
	a.iter.index = 0
	for {
		// must reload parent.name each time, since cursor modifications might change it
		v := reflect.Indirect(reflect.ValueOf(parent)).FieldByName(name)
		if a.iter.index >= v.Len() {
			break
		}

		// element x may be nil in a bad AST - be cautious
		var x ast.Node
		if e := v.Index(a.iter.index); e.IsValid() {
			x = e.Interface().(ast.Node)
		}

		a.iter.step = 1
		a.apply(parent, name, &a.iter, x)
		a.iter.index += a.iter.step
	}
	a.iter = saved
}
