// Package rewrite generates, from the current /repo working tree, rewritten
// copies of the library sources in which goroutines, channels, package sync,
// sync/atomic, net and crypto/rand are replaced by their simulator
// equivalents, and an overlay file for `go build -overlay`. /repo itself is
// never modified. Anything the tool cannot rewrite faithfully is an error
// (the checks turn that into exit code 2); it never guesses.
package rewrite

import (
	"bytes"
	"encoding/json"
	"fmt"
	"go/ast"
	"go/format"
	"go/importer"
	"go/parser"
	"go/token"
	"go/types"
	"io"
	"os"
	"os/exec"
	"path/filepath"
	"sort"
	"strconv"
	"strings"
)

const (
	repoModule = "github.com/markkurossi/mpc"
	rtPath     = "verifsim/sim/rt"
	rtName     = "simrt"
	pipePath   = "verifsim/sim/simpipe"
	pipeName   = "vsimpipe"
)

var importSubst = map[string]string{
	"sync":        "verifsim/sim/simsync",
	"sync/atomic": "verifsim/sim/simatomic",
	"net":         "verifsim/sim/simnet",
	"crypto/rand": "verifsim/sim/simrand",
	"time":        "verifsim/sim/simtime",
	"runtime":     "verifsim/sim/simruntime",
}

// Options configures a rewriter run.
type Options struct {
	Repo    string
	Out     string // scratch directory for rewritten files and overlay.json
	GoBin   string
	Variant string // "", "c08" (map-range permutation), "c17" (yields inside Garble/Eval/Compute)
	NoKnobs bool   // leave the tuning constants alone (fallback when a knob breaks the build)
	Env     []string
}

// Stats reports what was rewritten.
type Stats struct {
	Packages   int
	Files      int
	Imports    int
	GoStmts    int
	ChanOps    int
	MapRanges  int
	LoopYields int
	StmtYields int
	Makes      int
	Knobs      int
	Rewritten  []string
}

type listPkg struct {
	ImportPath string
	Dir        string
	Name       string
	GoFiles    []string
	Export     string
	Standard   bool
	Module     *struct{ Path string }
	Error      *struct{ Err string }
	DepsErrors []struct{ Err string }
}

// skipped subtrees of the repository: applications, docs, MPCL library.
func skipPkg(ip string) bool {
	rel := strings.TrimPrefix(ip, repoModule)
	for _, p := range []string{"/apps", "/docs", "/pkg", "/benchmarks"} {
		if strings.HasPrefix(rel, p) {
			return true
		}
	}
	return false
}

// mapRangePkgs are the packages on the compile path (variant c08).
var mapRangePkgs = map[string]bool{
	"/compiler": true, "/compiler/ast": true, "/compiler/ssa": true, "/compiler/circuits": true,
	"/compiler/utils": true, "/compiler/mpa": true, "/types": true, "/circuit": true,
}

// knobSpec names a tuning constant of the code that the simulator may vary
// per run (default: the value in the source, so behaviour is unchanged unless a
// world sets the knob). Ident: every use of a package-level constant;
// AssignLHS: integer literals assigned to a local variable of that name
// (":=" gives knob Name+".first", "=" gives Name+".next").
type knobSpec struct {
	Ident, AssignLHS, Name string
}

// knobFiles lists the knobs per file. If the source no longer matches, the
// knob is simply not applied (Stats.Knobs says how many were).
var knobFiles = map[string][]knobSpec{
	"/p2p/protocol.go": {
		{Ident: "numBuffers", Name: "p2p.numBuffers"},
		{Ident: "writeBufSize", Name: "p2p.writeBufSize"},
		{Ident: "readBufSize", Name: "p2p.readBufSize"},
	},
	"/gmw/triples.go": {
		{Ident: "lowWaterMark", Name: "gmw.lowWaterMark"},
		{AssignLHS: "batchSize", Name: "gmw.batchSize"},
	},
}

// stmtYieldFiles: files whose functions guard shared state with a mutex get a
// scheduling point before every statement (variant "stmt"): inside a held lock
// the extra points change nothing (the others block on the lock), but code that
// touches the shared state without the lock - or after releasing it too early -
// becomes interleavable, which the scheduling points at the lock operations
// alone cannot show. The value selects the functions: "" = all, otherwise only
// functions whose source mentions the string.
var stmtYieldFiles = map[string]string{
	"/p2p/network.go": "",
	"/gmw/triples.go": "",
	"/gmw/network.go": ".m.Lock()",
	// the grow-and-copy helpers the triple pool's arrays go through: between the copy and the
	// caller's installation of the new array another goroutine may still use the old one
	"/gmw/bitvec.go": "make([]uint64",
}

var loopYieldFiles = map[string]bool{
	"/circuit/garble.go": true, "/circuit/eval.go": true, "/circuit/computer.go": true,
}

// Run performs the rewrite and returns the path of the overlay file.
func Run(opt Options) (string, *Stats, error) {
	if err := os.MkdirAll(opt.Out, 0o755); err != nil {
		return "", nil, err
	}
	cmd := exec.Command(opt.GoBin, "list", "-e", "-export", "-deps", "-json=ImportPath,Dir,Name,GoFiles,Export,Standard,Module,Error,DepsErrors", "./...")
	cmd.Dir = opt.Repo
	cmd.Env = append(os.Environ(), opt.Env...)
	var stderr bytes.Buffer
	cmd.Stderr = &stderr
	outb, err := cmd.Output()
	if err != nil {
		return "", nil, fmt.Errorf("go list failed: %v\n%s", err, stderr.String())
	}
	dec := json.NewDecoder(bytes.NewReader(outb))
	exports := map[string]string{}
	var targets []*listPkg
	for {
		var p listPkg
		if err := dec.Decode(&p); err == io.EOF {
			break
		} else if err != nil {
			return "", nil, err
		}
		if strings.Contains(p.ImportPath, " ") {
			continue // PGO variants of the packages ("pkg [main]")
		}
		if p.Export != "" {
			exports[p.ImportPath] = p.Export
		}
		if p.Module != nil && p.Module.Path == repoModule && !p.Standard && !skipPkg(p.ImportPath) && p.Name != "main" {
			if p.Error != nil {
				return "", nil, fmt.Errorf("package %s does not build: %s", p.ImportPath, p.Error.Err)
			}
			q := p
			targets = append(targets, &q)
		}
	}
	sort.Slice(targets, func(i, j int) bool { return targets[i].ImportPath < targets[j].ImportPath })

	fset := token.NewFileSet()
	imp := importer.ForCompiler(fset, "gc", func(path string) (io.ReadCloser, error) {
		f, ok := exports[path]
		if !ok {
			return nil, fmt.Errorf("no export data for %s", path)
		}
		return os.Open(f)
	})

	overlay := map[string]string{}
	st := &Stats{}
	for _, p := range targets {
		if len(p.Export) == 0 && len(p.GoFiles) > 0 {
			return "", nil, fmt.Errorf("package %s did not compile (no export data): %s", p.ImportPath, stderr.String())
		}
		if err := rewritePkg(opt, fset, imp, p, overlay, st); err != nil {
			return "", nil, fmt.Errorf("%s: %v", p.ImportPath, err)
		}
	}
	ov := struct{ Replace map[string]string }{overlay}
	b, _ := json.MarshalIndent(ov, "", " ")
	path := filepath.Join(opt.Out, "overlay.json")
	if err := os.WriteFile(path, b, 0o644); err != nil {
		return "", nil, err
	}
	sort.Strings(st.Rewritten)
	return path, st, nil
}

type fileCtx struct {
	info     *types.Info
	fset     *token.FileSet
	extra    map[ast.Expr]types.Type
	recv2    map[*ast.UnaryExpr]bool
	needRT   bool
	changed  bool
	err      error
	st       *Stats
	variant  string
	relPkg   string
	relFile  string
	tmpCount int
	noKnobs  bool
}

func (c *fileCtx) typeOf(e ast.Expr) types.Type {
	if t, ok := c.extra[e]; ok {
		return t
	}
	return c.info.TypeOf(e)
}

func (c *fileCtx) isChan(e ast.Expr) bool {
	t := c.typeOf(e)
	if t == nil {
		return false
	}
	_, ok := t.Underlying().(*types.Chan)
	return ok
}

func (c *fileCtx) isSlice(e ast.Expr) bool {
	tv, ok := c.info.Types[e]
	if !ok || !tv.IsType() || tv.Type == nil {
		return false
	}
	_, ok = tv.Type.Underlying().(*types.Slice)
	return ok
}

func (c *fileCtx) isConst(e ast.Expr) bool {
	tv, ok := c.info.Types[e]
	return ok && tv.Value != nil
}

func (c *fileCtx) fail(n ast.Node, format string, args ...any) {
	if c.err == nil {
		c.err = fmt.Errorf("%s: %s", c.fset.Position(n.Pos()), fmt.Sprintf(format, args...))
	}
}

func rtSel(name string) ast.Expr {
	return &ast.SelectorExpr{X: ast.NewIdent(rtName), Sel: ast.NewIdent(name)}
}

func rewritePkg(opt Options, fset *token.FileSet, imp types.Importer, p *listPkg, overlay map[string]string, st *Stats) error {
	relPkg := strings.TrimPrefix(p.ImportPath, repoModule)
	var files []*ast.File
	for _, name := range p.GoFiles {
		f, err := parser.ParseFile(fset, filepath.Join(p.Dir, name), nil, parser.ParseComments|parser.SkipObjectResolution)
		if err != nil {
			return err
		}
		files = append(files, f)
	}
	info := &types.Info{
		Types: map[ast.Expr]types.TypeAndValue{},
		Uses:  map[*ast.Ident]types.Object{},
	}
	conf := types.Config{Importer: imp, Error: nil}
	if _, err := conf.Check(p.ImportPath, fset, files, info); err != nil {
		return fmt.Errorf("type check: %v", err)
	}
	st.Packages++
	for i, f := range files {
		ctx := &fileCtx{
			info: info, fset: fset, st: st, variant: opt.Variant, noKnobs: opt.NoKnobs,
			extra: map[ast.Expr]types.Type{}, recv2: map[*ast.UnaryExpr]bool{},
			relPkg: relPkg, relFile: relPkg + "/" + p.GoFiles[i],
		}
		ctx.rewriteFile(f)
		if ctx.err != nil {
			return ctx.err
		}
		if !ctx.changed {
			continue
		}
		var buf bytes.Buffer
		if err := format.Node(&buf, fset, f); err != nil {
			return fmt.Errorf("print %s: %v", p.GoFiles[i], err)
		}
		dst := filepath.Join(opt.Out, "src", filepath.FromSlash(relPkg), p.GoFiles[i])
		if err := os.MkdirAll(filepath.Dir(dst), 0o755); err != nil {
			return err
		}
		if err := os.WriteFile(dst, buf.Bytes(), 0o644); err != nil {
			return err
		}
		overlay[filepath.Join(p.Dir, p.GoFiles[i])] = dst
		st.Files++
		st.Rewritten = append(st.Rewritten, ctx.relFile)
	}
	return nil
}

func (c *fileCtx) rewriteFile(f *ast.File) {
	// 1. import substitution
	for _, is := range f.Imports {
		path, _ := strconv.Unquote(is.Path.Value)
		if to, ok := importSubst[path]; ok {
			if is.Name == nil {
				base := path[strings.LastIndex(path, "/")+1:]
				is.Name = ast.NewIdent(base)
			}
			is.Path = &ast.BasicLit{Kind: token.STRING, Value: strconv.Quote(to), ValuePos: is.Path.ValuePos}
			is.EndPos = 0
			c.changed = true
			c.st.Imports++
		}
	}

	// 1b. io.Pipe: the synchronous in-memory pipe blocks in the Go runtime; the simulator's
	// stand-in blocks in the kernel (only these four names of package io are mapped)
	{
		pipeNames := map[string]bool{"Pipe": true, "PipeReader": true, "PipeWriter": true, "ErrClosedPipe": true}
		mapped, other := 0, 0
		ast.Inspect(f, func(n ast.Node) bool {
			sel, ok := n.(*ast.SelectorExpr)
			if !ok {
				return true
			}
			id, ok := sel.X.(*ast.Ident)
			if !ok {
				return true
			}
			pn, ok := c.info.Uses[id].(*types.PkgName)
			if !ok || pn.Imported().Path() != "io" {
				return true
			}
			if pipeNames[sel.Sel.Name] {
				id.Name = pipeName
				mapped++
			} else {
				other++
			}
			return true
		})
		if mapped > 0 {
			addImport(f, pipeName, pipePath)
			if other == 0 {
				// keep the file's own import of io in use
				for _, is := range f.Imports {
					if path, _ := strconv.Unquote(is.Path.Value); path == "io" {
						name := "io"
						if is.Name != nil {
							name = is.Name.Name
						}
						if name != "_" && name != "." {
							f.Decls = append(f.Decls, &ast.GenDecl{Tok: token.VAR, Specs: []ast.Spec{&ast.ValueSpec{
								Names: []*ast.Ident{ast.NewIdent("_")},
								Type:  &ast.SelectorExpr{X: ast.NewIdent(name), Sel: ast.NewIdent("Reader")},
							}}})
						}
					}
				}
			}
			c.changed = true
			c.st.Imports++
		}
	}

	// Directives that we cannot carry through a reprint safely.
	for _, cg := range f.Comments {
		for _, cm := range cg.List {
			if strings.HasPrefix(cm.Text, "//go:embed") || strings.HasPrefix(cm.Text, "//go:linkname") {
				defer func(txt string) {
					if c.changed && c.err == nil {
						c.err = fmt.Errorf("%s needs rewriting but carries directive %q", c.relFile, txt)
					}
				}(cm.Text)
			}
		}
	}

	c.rewriteSelects(f)
	if c.err != nil {
		return
	}

	if sel, ok := stmtYieldFiles[c.relFile]; ok && c.variant == "stmt" {
		for _, d := range f.Decls {
			fd, ok := d.(*ast.FuncDecl)
			if !ok || fd.Body == nil {
				continue
			}
			if sel != "" {
				var buf bytes.Buffer
				format.Node(&buf, c.fset, fd)
				if !strings.Contains(buf.String(), sel) {
					continue
				}
			}
			caseBlocks := map[*ast.BlockStmt]bool{} // bodies of switch statements hold clauses, not statements
			ast.Inspect(fd.Body, func(n ast.Node) bool {
				var list *[]ast.Stmt
				switch b := n.(type) {
				case *ast.SwitchStmt:
					caseBlocks[b.Body] = true
				case *ast.TypeSwitchStmt:
					caseBlocks[b.Body] = true
				case *ast.SelectStmt:
					caseBlocks[b.Body] = true
				case *ast.BlockStmt:
					if caseBlocks[b] {
						return true
					}
					list = &b.List
				case *ast.CaseClause:
					list = &b.Body
				}
				if list == nil || len(*list) == 0 {
					return true
				}
				out := make([]ast.Stmt, 0, 2*len(*list))
				for _, st := range *list {
					if _, isDecl := st.(*ast.DeclStmt); !isDecl {
						out = append(out, &ast.ExprStmt{X: &ast.CallExpr{Fun: rtSel("YieldStmt")}})
						c.st.StmtYields++
					}
					out = append(out, st)
				}
				*list = out
				c.mark(true)
				return true
			})
		}
	}

	doMap := c.variant == "c08" && mapRangePkgs[c.relPkg]
	doYield := c.variant == "c17" && loopYieldFiles[c.relFile]

	declIdent := map[*ast.Ident]bool{}
	knobs := knobFiles[c.relFile]
	if c.noKnobs {
		knobs = nil
	}
	// a tuning constant used where the language wants a constant (another constant's
	// declaration, an array length) stays what it is
	constCtx := func(n ast.Node) {
		ast.Inspect(n, func(x ast.Node) bool {
			if id, ok := x.(*ast.Ident); ok {
				declIdent[id] = true
			}
			return true
		})
	}
	knobCall := func(name string, def ast.Expr) ast.Expr {
		c.mark(true)
		c.st.Knobs++
		return &ast.CallExpr{Fun: rtSel("Knob"), Args: []ast.Expr{&ast.BasicLit{Kind: token.STRING, Value: strconv.Quote(name)}, def}}
	}

	pre := func(cur *Cursor) bool {
		switch n := cur.Node().(type) {
		case *ast.GenDecl:
			if n.Tok == token.CONST && len(knobs) > 0 {
				constCtx(n)
			}
		case *ast.ArrayType:
			if n.Len != nil && len(knobs) > 0 {
				constCtx(n.Len)
			}
		case *ast.Field:
			for _, id := range n.Names {
				declIdent[id] = true
			}
		case *ast.AssignStmt:
			for _, k := range knobs {
				if k.AssignLHS == "" || len(n.Lhs) != 1 || len(n.Rhs) != 1 {
					continue
				}
				id, ok := n.Lhs[0].(*ast.Ident)
				lit, ok2 := n.Rhs[0].(*ast.BasicLit)
				if !ok || !ok2 || id.Name != k.AssignLHS || lit.Kind != token.INT {
					continue
				}
				name := k.Name + ".next"
				if n.Tok == token.DEFINE {
					name = k.Name + ".first"
				}
				n.Rhs[0] = knobCall(name, lit)
			}
			for _, l := range n.Lhs {
				if id, ok := l.(*ast.Ident); ok {
					declIdent[id] = true
				}
			}
			if len(n.Lhs) == 2 && len(n.Rhs) == 1 {
				if u, ok := unparen(n.Rhs[0]).(*ast.UnaryExpr); ok && u.Op == token.ARROW {
					c.recv2[u] = true
				}
			}
		case *ast.ValueSpec:
			for _, id := range n.Names {
				declIdent[id] = true
			}
			if len(n.Names) == 2 && len(n.Values) == 1 {
				if u, ok := unparen(n.Values[0]).(*ast.UnaryExpr); ok && u.Op == token.ARROW {
					c.recv2[u] = true
				}
			}
		case *ast.SelectStmt:
			c.fail(n, "select statement: not supported by the rewriter")
		case *ast.RangeStmt:
			// decide on the original operand before children are replaced
			t := c.typeOf(n.X)
			if t != nil {
				switch t.Underlying().(type) {
				case *types.Chan:
					n.X = &ast.CallExpr{Fun: &ast.SelectorExpr{X: n.X, Sel: ast.NewIdent("Seq")}}
					c.mark(true)
					c.st.ChanOps++
				case *types.Map:
					if doMap {
						n.X = &ast.CallExpr{Fun: rtSel("MapSeq"), Args: []ast.Expr{n.X}}
						c.mark(true)
						c.st.MapRanges++
					}
				}
			}
		}
		return true
	}

	post := func(cur *Cursor) bool {
		switch n := cur.Node().(type) {
		case *ast.Ident:
			for _, k := range knobs {
				if k.Ident == "" || n.Name != k.Ident || declIdent[n] {
					continue
				}
				if sel, ok := cur.Parent().(*ast.SelectorExpr); ok && sel.Sel == n {
					continue
				}
				if kv, ok := cur.Parent().(*ast.KeyValueExpr); ok && kv.Key == n {
					continue
				}
				if tv, ok := c.info.Types[n]; !ok || tv.Value == nil {
					continue // not a constant here (shadowed)
				}
				cur.Replace(knobCall(k.Name, ast.NewIdent(n.Name)))
			}
		case *ast.ChanType:
			repl := &ast.StarExpr{X: &ast.IndexExpr{X: rtSel("Chan"), Index: n.Value}}
			if t := c.info.TypeOf(n); t != nil {
				c.extra[repl] = t
			}
			cur.Replace(repl)
			c.mark(true)
			c.st.ChanOps++
		case *ast.SendStmt:
			cur.Replace(&ast.ExprStmt{X: &ast.CallExpr{
				Fun:  &ast.SelectorExpr{X: n.Chan, Sel: ast.NewIdent("Send")},
				Args: []ast.Expr{n.Value},
			}})
			c.mark(true)
			c.st.ChanOps++
		case *ast.UnaryExpr:
			if n.Op == token.ARROW {
				m := "Recv"
				if c.recv2[n] {
					m = "Recv2"
				}
				repl := &ast.CallExpr{Fun: &ast.SelectorExpr{X: n.X, Sel: ast.NewIdent(m)}}
				if t := c.info.TypeOf(n); t != nil {
					c.extra[repl] = t
				}
				cur.Replace(repl)
				c.mark(true)
				c.st.ChanOps++
			}
		case *ast.CallExpr:
			id, ok := n.Fun.(*ast.Ident)
			if !ok {
				break
			}
			switch id.Name {
			case "make":
				if len(n.Args) >= 1 {
					if se, ok := n.Args[0].(*ast.StarExpr); ok && isRTChan(se) {
						ix := se.X.(*ast.IndexExpr)
						repl := &ast.CallExpr{
							Fun:  &ast.IndexExpr{X: rtSel("NewChan"), Index: ix.Index},
							Args: n.Args[1:],
						}
						if t, ok := c.extra[se]; ok {
							c.extra[repl] = t
						}
						cur.Replace(repl)
						c.mark(true)
					} else if c.isChan(n.Args[0]) {
						c.fail(n, "make of a named channel type: not supported by the rewriter")
					} else if c.isSlice(n.Args[0]) && len(n.Args) >= 2 && !c.isConst(n.Args[1]) {
						// dynamic allocation sizes go through the simulator's
						// allocator seam (a giant allocation = party crash)
						repl := &ast.CallExpr{Fun: &ast.IndexExpr{X: rtSel("MakeSlice"), Index: n.Args[0]}}
						for _, a := range n.Args[1:] {
							repl.Args = append(repl.Args, &ast.CallExpr{Fun: ast.NewIdent("int"), Args: []ast.Expr{a}})
						}
						cur.Replace(repl)
						c.mark(true)
						c.st.Makes++
					}
				}
			case "close":
				if len(n.Args) == 1 {
					cur.Replace(&ast.CallExpr{Fun: &ast.SelectorExpr{X: n.Args[0], Sel: ast.NewIdent("Close")}})
					c.mark(true)
					c.st.ChanOps++
				}
			case "len", "cap":
				if len(n.Args) == 1 && c.isChan(n.Args[0]) {
					m := "Len"
					if id.Name == "cap" {
						m = "Cap"
					}
					cur.Replace(&ast.CallExpr{Fun: &ast.SelectorExpr{X: n.Args[0], Sel: ast.NewIdent(m)}})
					c.mark(true)
					c.st.ChanOps++
				}
			}
		case *ast.GoStmt:
			cur.Replace(c.rewriteGo(n))
			c.mark(true)
			c.st.GoStmts++
		case *ast.ForStmt:
			if doYield {
				c.addYield(n.Body)
			}
		case *ast.RangeStmt:
			if doYield {
				c.addYield(n.Body)
			}
		}
		return true
	}
	Apply(f, pre, post)

	if c.needRT {
		addImport(f, rtName, rtPath)
	}
	if c.changed {
		// keep only directive comments; positions of synthesized nodes are
		// unknown, so free-floating comments could be misplaced by the printer.
		var keep []*ast.CommentGroup
		for _, cg := range f.Comments {
			dir := false
			for _, cm := range cg.List {
				if strings.HasPrefix(cm.Text, "//go:") || strings.HasPrefix(cm.Text, "// +build") {
					dir = true
				}
			}
			if dir {
				keep = append(keep, cg)
			}
		}
		f.Comments = keep
	}
}

func (c *fileCtx) mark(rt bool) {
	c.changed = true
	if rt {
		c.needRT = true
	}
}

func (c *fileCtx) addYield(b *ast.BlockStmt) {
	if b == nil {
		return
	}
	y := &ast.ExprStmt{X: &ast.CallExpr{Fun: rtSel("Yield")}}
	b.List = append([]ast.Stmt{y}, b.List...)
	c.mark(true)
	c.st.LoopYields++
}

func isRTChan(se *ast.StarExpr) bool {
	ix, ok := se.X.(*ast.IndexExpr)
	if !ok {
		return false
	}
	sel, ok := ix.X.(*ast.SelectorExpr)
	if !ok {
		return false
	}
	id, ok := sel.X.(*ast.Ident)
	return ok && id.Name == rtName && sel.Sel.Name == "Chan"
}

func unparen(e ast.Expr) ast.Expr {
	for {
		p, ok := e.(*ast.ParenExpr)
		if !ok {
			return e
		}
		e = p.X
	}
}

// rewriteGo turns `go f(a, b)` into a block that evaluates the function value
// and the arguments in place (the semantics of the go statement) and hands a
// closure to the kernel.
func (c *fileCtx) rewriteGo(g *ast.GoStmt) ast.Stmt {
	call := g.Call
	pos := c.fset.Position(g.Pos())
	site := fmt.Sprintf("%s:%d", strings.TrimPrefix(c.relFile, "/"), pos.Line)
	var stmts []ast.Stmt
	newCall := &ast.CallExpr{Ellipsis: call.Ellipsis}
	if call.Ellipsis != token.NoPos {
		newCall.Ellipsis = 1
	}
	// function value
	switch fn := unparen(call.Fun).(type) {
	case *ast.FuncLit:
		newCall.Fun = fn
	default:
		if tv, ok := c.info.Types[call.Fun]; ok && (tv.IsType() || tv.IsBuiltin()) {
			c.fail(g, "go statement with conversion or builtin: not supported by the rewriter")
			return g
		}
		name := c.tmp("fn")
		stmts = append(stmts, &ast.AssignStmt{Lhs: []ast.Expr{ast.NewIdent(name)}, Tok: token.DEFINE, Rhs: []ast.Expr{call.Fun}})
		newCall.Fun = ast.NewIdent(name)
	}
	for _, a := range call.Args {
		tv, ok := c.info.Types[a]
		if t, isExtra := c.extra[a]; isExtra && t != nil {
			ok = true
			tv = types.TypeAndValue{Type: t}
		}
		if ok && (tv.Value != nil || tv.IsNil()) {
			newCall.Args = append(newCall.Args, a) // constants and nil: inline
			continue
		}
		if ok {
			if tup, isTuple := tv.Type.(*types.Tuple); isTuple && tup.Len() != 1 {
				c.fail(g, "go statement with multi-value argument: not supported by the rewriter")
				return g
			}
		}
		name := c.tmp("a")
		stmts = append(stmts, &ast.AssignStmt{Lhs: []ast.Expr{ast.NewIdent(name)}, Tok: token.DEFINE, Rhs: []ast.Expr{a}})
		newCall.Args = append(newCall.Args, ast.NewIdent(name))
	}
	body := &ast.BlockStmt{List: []ast.Stmt{&ast.ExprStmt{X: newCall}}}
	stmts = append(stmts, &ast.ExprStmt{X: &ast.CallExpr{
		Fun: rtSel("Go"),
		Args: []ast.Expr{
			&ast.BasicLit{Kind: token.STRING, Value: strconv.Quote(site)},
			&ast.FuncLit{Type: &ast.FuncType{Params: &ast.FieldList{}}, Body: body},
		},
	}})
	return &ast.BlockStmt{List: stmts}
}

func (c *fileCtx) tmp(kind string) string {
	c.tmpCount++
	return fmt.Sprintf("simrt%s%d", kind, c.tmpCount)
}

func addImport(f *ast.File, name, path string) {
	spec := &ast.ImportSpec{Name: ast.NewIdent(name), Path: &ast.BasicLit{Kind: token.STRING, Value: strconv.Quote(path)}}
	decl := &ast.GenDecl{Tok: token.IMPORT, Specs: []ast.Spec{spec}}
	f.Decls = append([]ast.Decl{decl}, f.Decls...)
	f.Imports = append(f.Imports, spec)
}
