package rewrite

import (
	"go/ast"
	"go/token"
	"strconv"
)

// rewriteSelects turns every select statement into a switch over
// simrt.Select(hasDefault, arms...):
//
//	select {                          switch _sel0, _sel1 := simrt.RecvOf(c), simrt.SendCase(d, x); simrt.Select(true, _sel0, _sel1) {
//	case v, ok := <-c: A              case 0: v, ok := _sel0.Val, _sel0.Ok; A
//	case d <- x:       B      =>      case 1: B
//	default:           C              default: C
//	}                                 }
//
// The channel operands and send values are evaluated once, in source order,
// when the statement is entered, as the language specifies; `break` leaves the
// switch as it left the select; a label stays on the statement. The channel
// expressions are left in their original form, the main pass rewrites their
// types afterwards. Select chooses among the ready arms by the tape.
func (c *fileCtx) rewriteSelects(f *ast.File) {
	post := func(cur *Cursor) bool {
		sel, ok := cur.Node().(*ast.SelectStmt)
		if !ok {
			return true
		}
		var names []ast.Expr
		var inits []ast.Expr
		var clauses []ast.Stmt
		hasDefault := false
		idx := 0
		for _, s := range sel.Body.List {
			cc := s.(*ast.CommClause)
			if cc.Comm == nil {
				hasDefault = true
				clauses = append(clauses, &ast.CaseClause{Case: cc.Case, Colon: cc.Colon, Body: cc.Body})
				continue
			}
			name := c.tmp("sel")
			names = append(names, ast.NewIdent(name))
			var body []ast.Stmt
			recvOf := func(e ast.Expr) (ast.Expr, bool) {
				u, ok := unparen(e).(*ast.UnaryExpr)
				if !ok || u.Op != token.ARROW {
					return nil, false
				}
				return &ast.CallExpr{Fun: rtSel("RecvOf"), Args: []ast.Expr{u.X}}, true
			}
			switch comm := cc.Comm.(type) {
			case *ast.SendStmt:
				inits = append(inits, &ast.CallExpr{Fun: rtSel("SendCase"), Args: []ast.Expr{comm.Chan, comm.Value}})
			case *ast.ExprStmt:
				call, ok := recvOf(comm.X)
				if !ok {
					c.fail(comm, "select: unsupported communication clause")
					return true
				}
				inits = append(inits, call)
			case *ast.AssignStmt:
				if len(comm.Rhs) != 1 || len(comm.Lhs) < 1 || len(comm.Lhs) > 2 {
					c.fail(comm, "select: unsupported communication clause")
					return true
				}
				call, ok := recvOf(comm.Rhs[0])
				if !ok {
					c.fail(comm, "select: unsupported communication clause")
					return true
				}
				inits = append(inits, call)
				rhs := []ast.Expr{&ast.SelectorExpr{X: ast.NewIdent(name), Sel: ast.NewIdent("Val")}}
				if len(comm.Lhs) == 2 {
					rhs = append(rhs, &ast.SelectorExpr{X: ast.NewIdent(name), Sel: ast.NewIdent("Ok")})
				}
				body = append(body, &ast.AssignStmt{Lhs: comm.Lhs, Tok: comm.Tok, Rhs: rhs})
			default:
				c.fail(cc, "select: unsupported communication clause")
				return true
			}
			body = append(body, cc.Body...)
			clauses = append(clauses, &ast.CaseClause{
				Case: cc.Case, Colon: cc.Colon,
				List: []ast.Expr{&ast.BasicLit{Kind: token.INT, Value: strconv.Itoa(idx)}},
				Body: body,
			})
			idx++
		}
		hd := "false"
		if hasDefault {
			hd = "true"
		}
		args := []ast.Expr{ast.NewIdent(hd)}
		for _, n := range names {
			args = append(args, ast.NewIdent(n.(*ast.Ident).Name))
		}
		sw := &ast.SwitchStmt{
			Switch: sel.Select,
			Tag:    &ast.CallExpr{Fun: rtSel("Select"), Args: args},
			Body:   &ast.BlockStmt{Lbrace: sel.Body.Lbrace, List: clauses, Rbrace: sel.Body.Rbrace},
		}
		if len(names) > 0 {
			sw.Init = &ast.AssignStmt{Lhs: names, Tok: token.DEFINE, Rhs: inits}
		}
		cur.Replace(sw)
		c.mark(true)
		c.st.ChanOps++
		return true
	}
	Apply(f, nil, post)
}
