// Package simdisk is a tiny in-memory file store with an explicit
// durable/volatile split, stored-byte faults and short-reading readers.
package simdisk

import (
	"errors"
	"io"

	"verifsim/sim/rt"
)

// FS is one party's disk.
type FS struct {
	durable  map[string][]byte
	volatile map[string][]byte
	Stats    struct{ Writes, Syncs, Crashes, LostWrites, TornWrites int }
}

// New returns an empty disk.
func New() *FS { return &FS{durable: map[string][]byte{}, volatile: map[string][]byte{}} }

// Write stores data in the volatile layer.
func (f *FS) Write(name string, data []byte) {
	rt.Yield()
	f.volatile[name] = append([]byte(nil), data...)
	f.Stats.Writes++
}

// Sync makes the file durable.
func (f *FS) Sync(name string) {
	rt.Yield()
	if d, ok := f.volatile[name]; ok {
		f.durable[name] = d
		delete(f.volatile, name)
	}
	f.Stats.Syncs++
}

// Crash discards everything that was not synced; torn > 0 keeps a prefix of
// that many bytes of each unsynced file instead (torn write).
func (f *FS) Crash(torn int) {
	for name, d := range f.volatile {
		if torn > 0 && torn < len(d) {
			f.durable[name] = d[:torn]
			f.Stats.TornWrites++
		} else {
			f.Stats.LostWrites++
		}
	}
	f.volatile = map[string][]byte{}
	f.Stats.Crashes++
}

// ErrNotExist is returned for missing files.
var ErrNotExist = errors.New("simdisk: file does not exist")

// Read returns the current content (volatile over durable).
func (f *FS) Read(name string) ([]byte, error) {
	rt.Yield()
	if d, ok := f.volatile[name]; ok {
		return append([]byte(nil), d...), nil
	}
	if d, ok := f.durable[name]; ok {
		return append([]byte(nil), d...), nil
	}
	return nil, ErrNotExist
}

// Reader is an io.Reader over a byte string that delivers tape-chosen short
// reads and, optionally, an error at a given offset.
type Reader struct {
	Yield bool // every Read is a scheduling point
	Data  []byte
	pos   int
	Mode  int // 0 whole, 1 one byte, 2 random, 3 at most K
	K     int
	ErrAt int // -1 none
	Err   error
	// EOFWithLast: the Read that delivers the last bytes returns them together with io.EOF (legal
	// for an io.Reader; iotest.DataErrReader)
	EOFWithLast bool
	EOFs        int // Read calls answered with EOF
	Reads       int
	Shorts      int
}

// NewReader returns a reader; mode as in the Mode field.
func NewReader(data []byte, mode, k int) *Reader {
	return &Reader{Data: data, Mode: mode, K: k, ErrAt: -1}
}

// Read implements io.Reader; it never returns 0, nil for a non-empty buffer.
func (r *Reader) Read(p []byte) (int, error) {
	if r.Yield {
		rt.Yield() // a read from storage takes time: other tasks of the process run meanwhile
	}
	r.Reads++
	if len(p) == 0 {
		return 0, nil
	}
	if r.ErrAt >= 0 && r.pos >= r.ErrAt {
		return 0, r.Err
	}
	if r.pos >= len(r.Data) {
		r.EOFs++
		return 0, io.EOF
	}
	n := len(r.Data) - r.pos
	if n > len(p) {
		n = len(p)
	}
	if r.ErrAt >= 0 && r.pos+n > r.ErrAt {
		n = r.ErrAt - r.pos
	}
	max := n
	switch r.Mode {
	case 1:
		n = 1
	case 2:
		if n > 1 {
			n = 1 + rt.Choose(rt.SNet, n)
		}
	case 3:
		if r.K > 0 && n > r.K {
			n = r.K
		}
	}
	if n < max {
		r.Shorts++
	}
	copy(p, r.Data[r.pos:r.pos+n])
	r.pos += n
	if r.Yield {
		rt.Progress()
	}
	if r.EOFWithLast && r.pos >= len(r.Data) && r.ErrAt < 0 {
		r.EOFs++
		return n, io.EOF
	}
	return n, nil
}
