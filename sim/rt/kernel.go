package rt

import (
	"container/heap"
	"crypto/sha256"
	"encoding/binary"
	"encoding/hex"
	"fmt"
	"hash"
	"os"
	"runtime"
	"runtime/debug"
	"sort"
	"strings"
	"time"
)

// Outcome is how a simulated run ended, decided by the kernel alone.
type Outcome int

// Outcomes.
const (
	Completed Outcome = iota // every task returned
	Deadlock                 // no runnable task, no pending event, some task not done
	StepCap                  // step budget exhausted: never a verdict
	Livelock                 // no byte, message or task event for Config.NoProgress consecutive scheduling points under a fair scheduler
)

func (o Outcome) String() string {
	switch o {
	case Completed:
		return "completed"
	case Deadlock:
		return "deadlock"
	case StepCap:
		return "step-cap"
	case Livelock:
		return "livelock"
	}
	return "?"
}

type taskState int

const (
	tRunnable taskState = iota
	tRunning
	tBlocked
	tDone
)

// Task is one simulated goroutine.
type Task struct {
	ID      string
	Party   string
	idx     int
	state   taskState
	wake    chan struct{}
	killed  bool
	exited  chan struct{}
	BlockOn string // what the task is parked on (diagnostics)
	prio    int    // PCT priority
	Panic   any    // non-nil if the task died by panic
	Stack   string
	// Local is free for worlds (e.g. per-task scratch).
	Local any
	// Locks counts the simulated mutexes the task holds (kept by simsync).
	Locks int
}

type event struct {
	at  time.Duration
	seq uint64
	fn  func()
}

type eventHeap []event

func (h eventHeap) Len() int { return len(h) }
func (h eventHeap) Less(i, j int) bool {
	if h[i].at != h[j].at {
		return h[i].at < h[j].at
	}
	return h[i].seq < h[j].seq
}
func (h eventHeap) Swap(i, j int) { h[i], h[j] = h[j], h[i] }
func (h *eventHeap) Push(x any)   { *h = append(*h, x.(event)) }
func (h *eventHeap) Pop() any {
	old := *h
	n := len(old)
	x := old[n-1]
	*h = old[:n-1]
	return x
}

// Config configures one run.
type Config struct {
	MaxSteps int  // scheduling points before StepCap (0 = default)
	Trace    bool // keep a readable event trace
	// NoProgress > 0 ends the run as Livelock when that many consecutive
	// scheduling points pass without any progress event (bytes moved, channel
	// transfer, task spawn/exit, accept/dial, timer). The scheduler is weakly
	// fair (a task cannot continue forever while others are runnable), so
	// this is a definitive "spins without progress" verdict, not a timeout.
	NoProgress int
	// OnCrash is called (kernel context) when a task of party dies by panic.
	OnCrash func(party string, t *Task)
	// OnStall is called (kernel context) when no task can run and no timer is
	// pending although tasks remain: the world may abort the session (close
	// sockets, which readies their waiters) and return true to continue; the
	// run ends as Deadlock when it returns false or nothing became runnable.
	OnStall func() bool
}

// Policy is the scheduling policy of a run in search mode.
type Policy struct {
	Kind       int    // 0 random, 1 pct
	SwitchNum  uint64 // probability num/1000 of leaving a runnable task at a yield
	ChangeAt   []int  // PCT priority change points (step numbers)
	StarveTask int    // -1 none
}

// World is the state of the current run.
type World struct {
	Tape         *Tape
	cfg          Config
	pol          Policy
	tasks        []*Task
	cur          *Task
	now          time.Duration
	events       eventHeap
	seq          uint64
	h            hash.Hash
	steps        int
	stalls       int
	switches     int
	done         chan Outcome
	outcome      Outcome
	ended        bool
	Epoch        uint64
	reach        map[string]int
	trace        []string
	spawnN       map[string]int
	nextPrio     int
	lastProgress int
	contRun      int // consecutive "continue" decisions of the running task
	hot          bool // the pending scheduling point is an unguarded statement (YieldStmt)
	gcHook       func() // set when the code under test registered a finalizer (simruntime): a simulated GC cycle
	inGC         bool
	ambient      bool // not a run: the world of goroutines started outside any run (see ambientWorld)
	numCPU       map[string]int // CPU count of each party's machine (drawn when first asked)
	cpuOverride  int            // > 0: what NumCPU answers regardless of the party (SetNumCPU)
}

// W is the world of the run in progress (nil outside Run).
var W *World
var epoch uint64

type killSentinel struct{}

// IsKill reports whether a recovered panic value is the kernel's request to unwind a task at
// the end of a run. Harness code that recovers panics of the code under test on behalf of a
// task must pass it on (panic(v) again in the task's own goroutine).
func IsKill(v any) bool {
	_, ok := v.(killSentinel)
	return ok
}

// Result is what Run returns.
type Result struct {
	Outcome  Outcome
	Hash     string
	Steps    int
	Switches int
	Tasks    int
	SimTime  time.Duration
	Reach    map[string]int
	Trace    []string
	Crashed  []*Task  // tasks that died by panic
	Blocked  []string // "task: blocked-on" for deadlocks
}

// Run executes root as the first task of a fresh world and drives all tasks
// to completion, deadlock or the step cap.
func Run(cfg Config, tape *Tape, root func()) Result {
	if W != nil && W.ambient {
		// goroutines started outside a run (package initialisation, harness preparation) have
		// been running as tasks of an ambient world; they must have ended by now
		for spins := 0; spins < 1_000_000; spins++ {
			// let runnable leftovers (a worker that only has to return) finish
			pending := false
			for _, t := range W.tasks[1:] {
				if t.state == tRunnable {
					pending = true
				}
			}
			if !pending {
				break
			}
			W.tasks[0].state = tBlocked
			W.tasks[0].BlockOn = "draining the ambient world"
			others := 0
			for _, t := range W.tasks[1:] {
				if t.state != tDone {
					others++
				}
			}
			_ = others
			// run the others until none of them can run; the root is readied by a zero-delay event
			root := W.tasks[0]
			After(0, func() { Ready(root) })
			W.dispatch(root)
		}
		for _, t := range W.tasks[1:] {
			if t.state != tDone {
				fmt.Fprintf(os.Stderr, "verifsim: a goroutine started outside a simulated run (%s) is still alive when a run starts: exit 2\n", t.ID)
				os.Exit(2)
			}
		}
		W = nil
	}
	if W != nil {
		panic("rt.Run: nested run")
	}
	if cfg.MaxSteps == 0 {
		cfg.MaxSteps = 50_000_000
	}
	epoch++
	w := &World{
		Tape:   tape,
		cfg:    cfg,
		h:      sha256.New(),
		done:   make(chan Outcome, 1),
		Epoch:  epoch,
		reach:  map[string]int{},
		spawnN: map[string]int{},
	}
	// Scheduling policy of this run (search mode only; replay plays indices).
	w.pol = drawPolicy(tape)
	W = w
	defer func() { W = nil }()

	t := w.newTask("root", "", root)
	t.state = tRunning
	w.cur = t
	t.wake <- struct{}{}

	// Wait for the run to end; watchdog against real blocking.
	var out Outcome
	last := -1
	tick := time.NewTicker(120 * time.Second)
	defer tick.Stop()
wait:
	for {
		select {
		case out = <-w.done:
			break wait
		case <-tick.C:
			if w.steps == last {
				fmt.Fprintf(os.Stderr, "verifsim: watchdog: no scheduling progress for 120s (step %d); real block or endless computation\n", w.steps)
				buf := make([]byte, 1<<20)
				n := runtime.Stack(buf, true)
				os.Stderr.Write(buf[:n])
				os.Exit(2)
			}
			last = w.steps
		}
	}
	w.ended = true
	res := Result{Outcome: out, Steps: w.steps, Switches: w.switches, Tasks: len(w.tasks), SimTime: w.now, Reach: w.reach}
	for _, t := range w.tasks {
		if t.Panic != nil {
			res.Crashed = append(res.Crashed, t)
		}
		if t.state != tDone {
			res.Blocked = append(res.Blocked, t.ID+": "+t.BlockOn)
		}
	}
	// Tear down parked tasks one at a time.
	for _, t := range w.tasks {
		if t.state != tDone {
			t.killed = true
			w.cur = t
			t.wake <- struct{}{}
			<-t.exited
		}
	}
	w.logRec('E', uint64(out), 0)
	res.Hash = hex.EncodeToString(w.h.Sum(nil))
	res.Trace = w.trace
	return res
}

func drawPolicy(t *Tape) Policy {
	var p Policy
	p.StarveTask = -1
	k := t.Choose(SGen, 8)
	switch k {
	case 0:
		p.SwitchNum = 0 // run to block, lowest id first unless blocked choice says otherwise
	case 1:
		p.SwitchNum = 5
	case 2:
		p.SwitchNum = 30
	case 3:
		p.SwitchNum = 150
	case 4:
		p.SwitchNum = 500
	case 5, 6:
		p.Kind = 1
		d := t.Choose(SGen, 4)
		for i := 0; i < d; i++ {
			p.ChangeAt = append(p.ChangeAt, 1+t.Choose(SGen, 2000))
		}
		sort.Ints(p.ChangeAt)
	case 7:
		p.SwitchNum = 60
		p.StarveTask = t.Choose(SGen, 6)
	}
	return p
}

func (w *World) newTask(site, party string, fn func()) *Task {
	parent := ""
	if w.cur != nil {
		parent = w.cur.ID
		if party == "" {
			party = w.cur.Party
		}
	}
	key := parent + "/" + site
	n := w.spawnN[key]
	w.spawnN[key] = n + 1
	t := &Task{
		ID:     fmt.Sprintf("%s#%d", key, n),
		Party:  party,
		idx:    len(w.tasks),
		state:  tRunnable,
		wake:   make(chan struct{}, 1),
		exited: make(chan struct{}, 1),
	}
	// PCT priorities: drawn at spawn, high = runs first.
	t.prio = 1000 + int(w.Tape.Choose(SSched, 1000))
	w.tasks = append(w.tasks, t)
	w.lastProgress = w.steps
	w.logRec('S', uint64(t.idx), 0)
	if w.cfg.Trace {
		w.tracef("spawn %s", t.ID)
	}
	go func() {
		<-t.wake
		defer func() {
			r := recover()
			if _, isKill := r.(killSentinel); isKill || t.killed {
				t.state = tDone
				t.exited <- struct{}{}
				return
			}
			if r != nil {
				t.Panic = r
				t.Stack = string(debug.Stack())
				w.logRec('P', uint64(t.idx), 0)
				if w.cfg.Trace {
					w.tracef("panic in %s: %v", t.ID, r)
				}
				if w.cfg.OnCrash != nil {
					func() {
						defer func() {
							if r2 := recover(); r2 != nil {
								fmt.Fprintf(os.Stderr, "verifsim: OnCrash panicked: %v\n", r2)
								os.Exit(2)
							}
						}()
						w.cfg.OnCrash(t.Party, t)
					}()
				}
			}
			t.state = tDone
			w.lastProgress = w.steps
			w.logRec('X', uint64(t.idx), 0)
			w.dispatch(nil)
		}()
		if t.killed {
			panic(killSentinel{})
		}
		fn()
	}()
	return t
}

// ambientWorld serves code of the library that starts goroutines outside any simulated run -
// a package's init function, a preparation step of the harness. The calling goroutine becomes
// the first task of a world with a fixed tape; the goroutines it starts are tasks of that world
// and everything blocks and wakes through the kernel as usual, deterministically. The world
// lasts until the next Run starts, by which time all its other tasks must have ended. A
// deadlock in it is harness trouble (exit 2), never a verdict.
func ambientWorld() *World {
	epoch++
	w := &World{
		Tape:    NewTape(0),
		cfg:     Config{MaxSteps: 1 << 40},
		h:       sha256.New(),
		done:    make(chan Outcome, 1),
		Epoch:   epoch,
		reach:   map[string]int{},
		spawnN:  map[string]int{},
		ambient: true,
	}
	w.pol = drawPolicy(w.Tape)
	t := &Task{ID: "ambient", state: tRunning, wake: make(chan struct{}, 1), exited: make(chan struct{}, 1)}
	w.tasks = append(w.tasks, t)
	w.cur = t
	W = w
	return w
}

// Go spawns a new task (rewritten `go` statements and harness tasks).
func Go(site string, fn func()) {
	w := W
	if w == nil {
		w = ambientWorld()
	}
	if w.ended {
		panic("rt.Go outside a simulated run (site " + site + ")")
	}
	w.enter()
	w.newTask(site, "", fn)
	Yield()
}

// GoParty spawns a task that belongs to the named party.
func GoParty(party, site string, fn func()) {
	w := W
	if w == nil {
		panic("rt.GoParty outside a simulated run")
	}
	w.enter()
	w.newTask(site, party, fn)
	Yield()
}

// enter is called at the start of every kernel operation by the running task.
func (w *World) enter() {
	if t := w.cur; t != nil && t.killed {
		panic(killSentinel{})
	}
}

// Unwinding reports whether the calling task is being torn down by the
// kernel at the end of a run (its deferred functions run then: a deferred
// "done = true" must not count a blocked task as finished).
func Unwinding() bool { return W != nil && W.cur != nil && W.cur.killed }

// Active reports whether a simulated run is in progress and the caller is one
// of its tasks (sim primitives degrade to trivial sequential behaviour
// otherwise).
func Active() bool { return W != nil && !W.ended && W.cur != nil }

// Current returns the running task.
func Current() *Task {
	if W == nil {
		return nil
	}
	return W.cur
}

// Yield is a scheduling point: the tape decides whether another runnable
// task continues instead of the caller.
func Yield() {
	w := W
	if w == nil || w.ended || w.cur == nil {
		return
	}
	maybeGC(w, 400)
	w.enter()
	t := w.cur
	t.state = tRunnable
	w.dispatch(t)
}

// YieldStmt is the scheduling point the rewriter's variant "stmt" puts before every statement of
// the functions that guard shared state with a mutex. While the task holds a lock it is an
// ordinary scheduling point. While it holds none, the statement touches (or may touch) the
// shared state unprotected - the code after an early unlock, before a late lock, or outside the
// critical section altogether - and the scheduler is biased towards letting another task run
// right there, because such windows are a few statements wide in runs of 10^5 scheduling points.
func YieldStmt() {
	w := W
	if w == nil || w.ended || w.cur == nil {
		return
	}
	if w.cur.Locks == 0 {
		w.hot = true
	}
	Yield()
}

// Park blocks the calling task until another task or event calls Ready on it.
// why describes what it waits for (diagnostics, deadlock reports).
func Park(why string) {
	w := W
	if w == nil || w.ended || w.cur == nil {
		panic("rt.Park outside a simulated run: would block forever on " + why)
	}
	w.enter()
	t := w.cur
	t.state = tBlocked
	t.BlockOn = why
	w.dispatch(t)
}

// Ready makes a parked task runnable again.
func Ready(t *Task) {
	if t.state == tBlocked {
		t.state = tRunnable
		t.BlockOn = ""
	}
}

// dispatch picks the next task. self is the calling task (nil when the caller
// has finished). It returns in the context of self once self is scheduled
// again.
func (w *World) dispatch(self *Task) {
	w.steps++
	for {
		if w.steps > w.cfg.MaxSteps {
			w.finish(StepCap, self)
			return
		}
		if w.cfg.NoProgress > 0 && w.steps-w.lastProgress > w.cfg.NoProgress {
			w.finish(Livelock, self)
			return
		}
		next := w.pick(self)
		if next != nil {
			if next == self {
				self.state = tRunning
				return
			}
			w.switches++
			next.state = tRunning
			w.cur = next
			next.wake <- struct{}{}
			if self != nil {
				w.waitWake(self)
			}
			return
		}
		// Nothing runnable: advance virtual time to the next event.
		if len(w.events) > 0 {
			ev := heap.Pop(&w.events).(event)
			if ev.at > w.now {
				w.now = ev.at
			}
			w.lastProgress = w.steps
			w.logRec('T', uint64(ev.at), ev.seq)
			ev.fn()
			continue
		}
		// No runnable task and no event.
		allDone := true
		for _, t := range w.tasks {
			if t.state != tDone {
				allDone = false
				break
			}
		}
		if allDone {
			w.finish(Completed, self)
			return
		}
		if w.cfg.OnStall != nil && w.stalls < 4 {
			w.stalls++
			w.logRec('D', uint64(w.stalls), 0)
			if w.cfg.Trace {
				w.tracef("stall: no task can run; asking the world")
			}
			if w.cfg.OnStall() {
				w.lastProgress = w.steps
				continue
			}
		}
		w.finish(Deadlock, self)
		return
	}
}

func (w *World) finish(o Outcome, self *Task) {
	if w.ambient {
		fmt.Fprintf(os.Stderr, "verifsim: goroutines started outside a simulated run ended in %v: exit 2\n", o)
		for _, t := range w.tasks {
			if t.state != tDone {
				fmt.Fprintf(os.Stderr, "  %s: %s\n", t.ID, t.BlockOn)
			}
		}
		os.Exit(2)
	}
	w.cur = nil
	w.done <- o
	if self != nil {
		w.waitWake(self)
	}
}

func (w *World) waitWake(self *Task) {
	<-self.wake
	if self.killed {
		panic(killSentinel{})
	}
}

// pick chooses among runnable tasks; candidates are presented with the
// calling task first (index 0 = "continue"), then the others in creation
// order, so that a zeroed tape means run-to-block, lowest task first.
func (w *World) pick(self *Task) *Task {
	var cands []*Task
	if self != nil && self.state == tRunnable {
		cands = append(cands, self)
	}
	for _, t := range w.tasks {
		if t.state == tRunnable && t != self {
			cands = append(cands, t)
		}
	}
	if len(cands) == 0 {
		return nil
	}
	if len(cands) == 1 {
		return cands[0]
	}
	continuing := cands[0] == self
	hot := w.hot
	w.hot = false
	idx := int(w.Tape.Raw(SSched, func(r *splitmix) uint32 {
		if hot && continuing && r.next()%3 == 0 {
			// an unguarded statement of lock-guarded code: whatever the policy, one time in
			// three somebody else runs first
			return uint32(1 + r.next()%uint64(len(cands)-1))
		}
		return uint32(w.policyPick(r, cands, continuing))
	}) % uint32(len(cands)))
	// weak fairness, independent of the tape: a task may not continue
	// forever while others are runnable.
	if continuing && idx == 0 {
		w.contRun++
		if w.contRun > 20000 {
			idx = 1
			w.contRun = 0
		}
	} else {
		w.contRun = 0
	}
	c := cands[idx]
	w.logRec('C', uint64(c.idx), uint64(len(cands)))
	if w.cfg.Trace && c != self {
		w.tracef("run %s", c.ID)
	}
	return c
}

func (w *World) policyPick(r *splitmix, cands []*Task, continuing bool) int {
	p := &w.pol
	switch p.Kind {
	case 1: // PCT: highest priority runs; at change points the running task drops.
		for len(p.ChangeAt) > 0 && w.steps >= p.ChangeAt[0] {
			p.ChangeAt = p.ChangeAt[1:]
			if continuing {
				w.nextPrio++
				cands[0].prio = 100 - w.nextPrio
			}
		}
		best := 0
		for i, c := range cands {
			if c.prio > cands[best].prio {
				best = i
			}
		}
		return best
	default:
		if p.StarveTask >= 0 && len(cands) > 1 {
			// avoid the starved task while somebody else can run
			var ok []int
			for i, c := range cands {
				if c.idx != p.StarveTask {
					ok = append(ok, i)
				}
			}
			if len(ok) > 0 && r.next()%50 != 0 {
				if continuing && cands[0].idx != p.StarveTask && r.next()%1000 >= p.SwitchNum {
					return 0
				}
				return ok[int(r.next()%uint64(len(ok)))]
			}
		}
		if continuing {
			if r.next()%1000 >= p.SwitchNum {
				return 0
			}
			return 1 + int(r.next()%uint64(len(cands)-1))
		}
		if p.SwitchNum == 0 {
			// run-to-block flavour: mostly lowest, sometimes any
			if r.next()%4 != 0 {
				return 0
			}
		}
		return int(r.next() % uint64(len(cands)))
	}
}

// Now returns the virtual time.
func Now() time.Duration {
	if W == nil {
		return 0
	}
	return W.now
}

// After schedules fn (kernel context: it may only touch kernel state, e.g.
// Ready tasks) at now+d.
func After(d time.Duration, fn func()) {
	w := W
	w.seq++
	heap.Push(&w.events, event{at: w.now + d, seq: w.seq, fn: fn})
}

// Sleep parks the calling task for d of virtual time.
func Sleep(d time.Duration) {
	if d <= 0 {
		Yield()
		return
	}
	w := W
	if w == nil || w.cur == nil {
		return
	}
	t := w.cur
	until := w.now + d
	After(d, func() { Ready(t) })
	for w.now < until {
		Park("sleep")
	}
}

// Choose draws from the tape of the current run.
func Choose(stream string, n int) int {
	if W == nil {
		return 0
	}
	return W.Tape.Choose(stream, n)
}

// Biased draws 0 with probability 1-num/den, else uniform in [1,n).
func Biased(stream string, n int, num, den uint64) int {
	if W == nil {
		return 0
	}
	return W.Tape.Biased(stream, n, num, den)
}

// Progress records a progress event (see Config.NoProgress).
func Progress() {
	if W != nil {
		W.lastProgress = W.steps
	}
}

// Reach counts a "this happened" probe.
func Reach(name string) {
	if W != nil {
		W.reach[name]++
	}
}

// ReachN adds n to a probe.
func ReachN(name string, n int) {
	if W != nil {
		W.reach[name] += n
	}
}

// LogBytes feeds payload bytes into the run's event hash.
func LogBytes(kind byte, b []byte) {
	w := W
	if w == nil {
		return
	}
	var hdr [9]byte
	hdr[0] = kind
	binary.LittleEndian.PutUint64(hdr[1:], uint64(len(b)))
	w.h.Write(hdr[:])
	w.h.Write(b)
	if eventDump != nil {
		sum := sha256.Sum256(b)
		fmt.Fprintf(eventDump, "%d %d %c bytes %d %x\n", w.Epoch, w.steps, kind, len(b), sum[:6])
	}
}

// LogEvent feeds a small record into the run's event hash.
func LogEvent(kind byte, a, b uint64) {
	if W != nil {
		W.logRec(kind, a, b)
	}
}

// eventDump: a debugging aid for the determinism self-test. With VERIF_EVENTLOG=<file> every
// record of the event log is also written there as text (run epoch, step, kind, operands), so that
// two executions of one run whose hashes differ can be compared with diff.
var eventDump = func() *os.File {
	if p := os.Getenv("VERIF_EVENTLOG"); p != "" {
		f, _ := os.OpenFile(p, os.O_CREATE|os.O_WRONLY|os.O_TRUNC, 0o644)
		return f
	}
	return nil
}()

func (w *World) logRec(kind byte, a, b uint64) {
	if eventDump != nil {
		fmt.Fprintf(eventDump, "%d %d %c %d %d\n", w.Epoch, w.steps, kind, a, b)
	}
	var rec [17]byte
	rec[0] = kind
	binary.LittleEndian.PutUint64(rec[1:], a)
	binary.LittleEndian.PutUint64(rec[9:], b)
	w.h.Write(rec[:])
}

// Tracef appends to the readable trace when tracing is on. Never draws from
// the tape and never reads a clock.
func Tracef(format string, args ...any) {
	if W != nil && W.cfg.Trace {
		W.tracef(format, args...)
	}
}

// Tracing reports whether the readable trace is being recorded.
func Tracing() bool { return W != nil && W.cfg.Trace }

func (w *World) tracef(format string, args ...any) {
	if len(w.trace) > 200000 {
		return
	}
	who := "-"
	if w.cur != nil {
		who = w.cur.ID
	}
	w.trace = append(w.trace, fmt.Sprintf("[%d t=%v %s] ", w.steps, w.now, shortID(who))+fmt.Sprintf(format, args...))
}

func shortID(id string) string {
	if i := strings.LastIndex(id, "/"); i > 0 && len(id) > 40 {
		return "…" + id[i:]
	}
	return id
}

// Steps returns the number of scheduling points so far.
func Steps() int {
	if W == nil {
		return 0
	}
	return W.steps
}

// Idle reports whether every task of the world has ended (kernel context:
// periodic timers stop re-arming themselves then).
func Idle() bool {
	if W == nil {
		return true
	}
	for _, t := range W.tasks {
		if t.state != tDone {
			return false
		}
	}
	return true
}

// SpawnFromEvent creates a task from kernel context (a timer event): no
// scheduling point, the task becomes runnable at once.
func SpawnFromEvent(party, site string, fn func()) {
	w := W
	if w == nil || w.ended {
		return
	}
	w.newTask(site, party, fn)
}

// cpuChoices are the machines of the simulation: single-CPU, small, odd and wide ones.
var cpuChoices = []int{1, 2, 3, 4, 6, 8, 12, 16, 24, 28, 32, 48, 64, 96, 128}

// NumCPU is the CPU count of the machine the calling task's party runs on, drawn from the tape
// the first time the party asks (4 outside a run). Code that sizes a worker pool or splits work by
// runtime.NumCPU or GOMAXPROCS gets that value whatever the host has - and two parties of one
// run are, as in any deployment, different machines.
func NumCPU() int {
	w := W
	if w == nil || w.ended {
		return 4
	}
	if w.cpuOverride > 0 {
		return w.cpuOverride
	}
	party := ""
	if w.cur != nil {
		party = w.cur.Party
	}
	n, ok := w.numCPU[party]
	if !ok {
		if w.numCPU == nil {
			w.numCPU = map[string]int{}
		}
		n = cpuChoices[w.Tape.Choose(SGen, len(cpuChoices))]
		w.numCPU[party] = n
		Reach("runtime.NumCPU-asked")
		if w.cfg.Trace {
			w.tracef("machine of party %q has %d CPUs", party, n)
		}
	}
	return n
}

// SetNumCPU fixes what NumCPU answers until it is called again (0: back to per-party values).
// Worlds whose "machines" are not parties (a compilation job that stands for another host) use it.
func SetNumCPU(n int) {
	if W != nil {
		W.cpuOverride = n
	}
}

// CPUChoice draws a CPU count from the tape (for SetNumCPU).
func CPUChoice(t *Tape) int { return cpuChoices[t.Choose(SGen, len(cpuChoices))] }

// LiveTasks counts the tasks that have not ended.
func LiveTasks() int {
	n := 0
	if W != nil {
		for _, t := range W.tasks {
			if t.state != tDone {
				n++
			}
		}
	}
	return n
}

// RunEpoch identifies the simulated run in progress: its epoch number, or 0 outside any run (also in
// the ambient world). State that must not survive from one run to the next compares it.
func RunEpoch() uint64 {
	if W == nil || W.ambient || W.ended {
		return 0
	}
	return W.Epoch
}

// maybeGC: a garbage-collection cycle of the simulated machine happens here one time in oneIn
// (if the run registered a finalizer or cleanup at all): what is unreachable now is collected
// and its finalizers become tasks.
func maybeGC(w *World, oneIn int) {
	if w.gcHook != nil && !w.inGC && !w.ambient && w.Tape.Choose(SFault, oneIn) == 0 {
		w.inGC = true
		w.gcHook()
		w.inGC = false
	}
}

// MaybeGC lets a seam say "a collection here would matter": the simulated pool calls it before
// it looks for a pooled item, because what finalizers and cleanups typically do is hand memory
// back to a pool.
func MaybeGC(oneIn int) {
	if w := W; w != nil && !w.ended && w.cur != nil {
		maybeGC(w, oneIn)
	}
}

// SetGCHook registers the function that performs a garbage-collection cycle of the simulated
// machine (simruntime: it collects, and turns the finalizers that became due into tasks). Once it
// is set, a cycle happens at tape-chosen scheduling points - about one in 400. Runs of code that
// registers no finalizer never set it, and nothing changes for them.
func SetGCHook(f func()) {
	if W != nil && !W.ended {
		W.gcHook = f
	}
}
