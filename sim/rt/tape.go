// Package rt is the deterministic simulation kernel: one world per process,
// exactly one task running at any instant, every decision drawn from a Tape.
package rt

import (
	"encoding/binary"
	"hash/fnv"
)

// Stream names. Each stream is an independent sequence of choices so that
// shrinking one (e.g. the schedule) does not shift the meaning of another
// (e.g. the generated workload).
const (
	SGen   = "gen"   // world shape and workload
	SSched = "sched" // which task runs next
	SNet   = "net"   // fragmentation, latency, capacities chosen at run time
	SFault = "fault" // fault positions / kinds
	SPool  = "pool"  // sync.Pool behaviour
	SMap   = "map"   // map iteration order
)

// Tape is the single source of decisions of a run. In search mode values come
// from per-stream PRNGs seeded from the run seed and are recorded; in replay
// mode they are played back from a stored list (missing entries read as 0).
type Tape struct {
	Seed    uint64
	Replay  bool
	Streams map[string]*Stream
}

// Stream is one named sequence of choices.
type Stream struct {
	Vals []uint32
	pos  int
	rng  splitmix
}

// NewTape returns a search-mode tape for seed.
func NewTape(seed uint64) *Tape {
	return &Tape{Seed: seed, Streams: map[string]*Stream{}}
}

// NewReplayTape returns a tape that plays back vals.
func NewReplayTape(seed uint64, vals map[string][]uint32) *Tape {
	t := &Tape{Seed: seed, Replay: true, Streams: map[string]*Stream{}}
	for k, v := range vals {
		t.Streams[k] = &Stream{Vals: append([]uint32(nil), v...)}
	}
	return t
}

func (t *Tape) stream(name string) *Stream {
	s := t.Streams[name]
	if s == nil {
		h := fnv.New64a()
		var b [8]byte
		binary.LittleEndian.PutUint64(b[:], t.Seed)
		h.Write(b[:])
		h.Write([]byte(name))
		s = &Stream{rng: splitmix{h.Sum64()}}
		t.Streams[name] = s
	}
	return s
}

// Raw draws a raw 32-bit value from the stream. gen, if non-nil, produces the
// value in search mode (policy-shaped distributions); it receives the
// stream's PRNG.
func (t *Tape) Raw(name string, gen func(r *splitmix) uint32) uint32 {
	s := t.stream(name)
	if t.Replay {
		if s.pos < len(s.Vals) {
			v := s.Vals[s.pos]
			s.pos++
			return v
		}
		s.pos++
		return 0
	}
	var v uint32
	if gen != nil {
		v = gen(&s.rng)
	} else {
		v = uint32(s.rng.next())
	}
	s.Vals = append(s.Vals, v)
	s.pos++
	return v
}

// Choose returns a value in [0, n). n <= 1 consumes nothing.
func (t *Tape) Choose(name string, n int) int {
	if n <= 1 {
		return 0
	}
	v := t.Raw(name, func(r *splitmix) uint32 { return uint32(r.next() % uint64(n)) })
	return int(v % uint32(n))
}

// Biased returns 0 with probability 1-p(num/den) and otherwise a uniform value
// in [1, n); zero is always the "simplest" alternative.
func (t *Tape) Biased(name string, n int, num, den uint64) int {
	if n <= 1 {
		return 0
	}
	v := t.Raw(name, func(r *splitmix) uint32 {
		if r.next()%den >= num {
			return 0
		}
		return uint32(1 + r.next()%uint64(n-1))
	})
	return int(v % uint32(n))
}

// Used returns, per stream, the values consumed so far (for replay files).
func (t *Tape) Used() map[string][]uint32 {
	out := map[string][]uint32{}
	for k, s := range t.Streams {
		n := s.pos
		if n > len(s.Vals) {
			n = len(s.Vals)
		}
		if n > 0 {
			out[k] = append([]uint32(nil), s.Vals[:n]...)
		}
	}
	return out
}

// splitmix is a tiny, fast, well-distributed PRNG (SplitMix64).
type splitmix struct{ s uint64 }

func (r *splitmix) next() uint64 {
	r.s += 0x9e3779b97f4a7c15
	z := r.s
	z = (z ^ (z >> 30)) * 0xbf58476d1ce4e5b9
	z = (z ^ (z >> 27)) * 0x94d049bb133111eb
	return z ^ (z >> 31)
}

// Next exposes the generator to policies outside this file.
func (r *splitmix) Next() uint64 { return r.next() }

// Mix hashes values into one 64-bit seed (run seed derivation).
func Mix(vals ...uint64) uint64 {
	r := splitmix{0x243f6a8885a308d3}
	var acc uint64
	for _, v := range vals {
		r.s ^= v
		acc = r.next()
		r.s = acc
	}
	return acc
}
