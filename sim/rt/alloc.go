package rt

import (
	"fmt"
	"unsafe"
)

// AllocLimit is the largest single slice allocation (in bytes) the simulated
// machine grants. A larger request panics in the requesting task, which the
// kernel records as a crash of that party - what a process killed by the OOM
// killer looks like to its peers.
var AllocLimit uint64 = 256 << 20

// AllocPeak is the largest single request granted since it was last reset
// (worlds size the simulated machine from what a clean session needs).
var AllocPeak uint64

// AllocTooLarge is the panic value of a refused allocation.
type AllocTooLarge struct {
	Bytes uint64
}

func (a AllocTooLarge) Error() string {
	return fmt.Sprintf("simulated machine: allocation of %d bytes refused (limit %d)", a.Bytes, AllocLimit)
}

// MakeSlice is make(S, n[, m]) behind the allocator seam (rewritten from
// every make call with a dynamic size in the library packages).
func MakeSlice[S ~[]E, E any](n int, m ...int) S {
	c := n
	if len(m) > 0 {
		c = m[0]
	}
	if c > 0 {
		var e E
		sz := uint64(unsafe.Sizeof(e))
		if sz == 0 {
			sz = 1
		}
		if uint64(c) > AllocLimit/sz {
			Reach("alloc.refused")
			panic(AllocTooLarge{Bytes: uint64(c) * sz})
		}
		if b := uint64(c) * sz; b > AllocPeak {
			AllocPeak = b
		}
	}
	if len(m) > 0 {
		return make(S, n, m[0])
	}
	return make(S, n)
}

// knobs are tuning constants of the code under test that a world varies for
// the current run (see rewrite.knobFiles); unset knobs keep the source value.
var knobs = map[string]int{}

// SetKnob sets a tuning knob for the runs until ResetKnobs.
func SetKnob(name string, v int) { knobs[name] = v }

// ResetKnobs restores every knob to the value in the source.
func ResetKnobs() {
	for k := range knobs {
		delete(knobs, k)
	}
}

// Knob returns the knob's value for this run, def (the source's constant) if unset.
func Knob(name string, def int) int {
	if v, ok := knobs[name]; ok {
		Reach("knob." + name)
		return v
	}
	return def
}
