package rt

import (
	"fmt"
	"testing"
)

func run(seed uint64, root func()) Result {
	return Run(Config{NoProgress: 100000}, NewTape(seed), root)
}

func TestChanFIFOAndClose(t *testing.T) {
	for seed := uint64(0); seed < 200; seed++ {
		var got []int
		res := run(seed, func() {
			c := NewChan[int](int(seed % 4))
			Go("producer", func() {
				for i := 0; i < 20; i++ {
					c.Send(i)
				}
				c.Close()
			})
			Go("consumer", func() {
				for v := range c.Seq() {
					got = append(got, v)
				}
			})
		})
		if res.Outcome != Completed {
			t.Fatalf("seed %d: outcome %v %v", seed, res.Outcome, res.Blocked)
		}
		if fmt.Sprint(got) != fmt.Sprint([]int{0, 1, 2, 3, 4, 5, 6, 7, 8, 9, 10, 11, 12, 13, 14, 15, 16, 17, 18, 19}) {
			t.Fatalf("seed %d: got %v", seed, got)
		}
	}
}

func TestUnbufferedRendezvous(t *testing.T) {
	for seed := uint64(0); seed < 100; seed++ {
		sent, recvd := 0, 0
		ok := true
		res := run(seed, func() {
			c := NewChan[int]()
			Go("s", func() {
				for i := 0; i < 10; i++ {
					c.Send(i)
					sent++
					// an unbuffered send completes only after the receive started
					if sent > recvd+1 {
						ok = false
					}
				}
			})
			Go("r", func() {
				for i := 0; i < 10; i++ {
					if c.Recv() != i {
						ok = false
					}
					recvd++
				}
			})
		})
		if res.Outcome != Completed || !ok {
			t.Fatalf("seed %d: outcome %v ok=%v", seed, res.Outcome, ok)
		}
	}
}

func TestDeadlockDetected(t *testing.T) {
	res := run(1, func() {
		c := NewChan[int]()
		Go("r", func() { c.Recv() })
	})
	if res.Outcome != Deadlock || len(res.Blocked) != 1 {
		t.Fatalf("outcome %v blocked %v", res.Outcome, res.Blocked)
	}
}

func TestSendOnClosedPanics(t *testing.T) {
	res := run(1, func() {
		c := NewChan[int](1)
		c.Close()
		Go("s", func() { c.Send(1) })
	})
	if len(res.Crashed) != 1 || fmt.Sprint(res.Crashed[0].Panic) != "send on closed channel" {
		t.Fatalf("crashed %v", res.Crashed)
	}
}

func TestSelect(t *testing.T) {
	for seed := uint64(0); seed < 100; seed++ {
		sum := 0
		res := run(seed, func() {
			a, b := NewChan[int](), NewChan[int](1)
			Go("pa", func() { a.Send(1) })
			Go("pb", func() { b.Send(2) })
			Go("sel", func() {
				for i := 0; i < 2; i++ {
					var v int
					switch Select(false, RecvCase(a, &v, nil), RecvCase(b, &v, nil)) {
					case 0, 1:
						sum += v
					}
				}
			})
		})
		if res.Outcome != Completed || sum != 3 {
			t.Fatalf("seed %d: outcome %v sum %d", seed, res.Outcome, sum)
		}
	}
}

func TestLivelockDetected(t *testing.T) {
	res := Run(Config{NoProgress: 5000}, NewTape(3), func() {
		Go("spin", func() {
			for {
				Yield()
			}
		})
	})
	if res.Outcome != Livelock {
		t.Fatalf("outcome %v", res.Outcome)
	}
}

func TestReplayIdentical(t *testing.T) {
	body := func(log *[]int) func() {
		return func() {
			c := NewChan[int](2)
			for i := 0; i < 4; i++ {
				i := i
				Go("w", func() {
					for j := 0; j < 5; j++ {
						c.Send(i*10 + j)
					}
				})
			}
			Go("r", func() {
				for k := 0; k < 20; k++ {
					*log = append(*log, c.Recv())
				}
			})
		}
	}
	for seed := uint64(0); seed < 50; seed++ {
		var l1, l2 []int
		t1 := NewTape(seed)
		r1 := Run(Config{}, t1, body(&l1))
		r2 := Run(Config{}, NewReplayTape(seed, t1.Used()), body(&l2))
		if r1.Hash != r2.Hash || fmt.Sprint(l1) != fmt.Sprint(l2) {
			t.Fatalf("seed %d: replay differs: %v vs %v", seed, l1, l2)
		}
	}
}

func TestMapSeqVisitsAll(t *testing.T) {
	for seed := uint64(0); seed < 50; seed++ {
		m := map[string]int{"a": 1, "b": 2, "c": 3, "d": 4, "e": 5}
		sum := 0
		var order string
		Run(Config{}, NewTape(seed), func() {
			for k, v := range MapSeq(m) {
				sum += v
				order += k
			}
		})
		if sum != 15 || len(order) != 5 {
			t.Fatalf("seed %d: sum %d order %q", seed, sum, order)
		}
	}
}

// Goroutines started outside any run (a package's init function) run as tasks of the
// ambient world; a later Run starts cleanly.
func TestAmbientWorld(t *testing.T) {
	if W != nil {
		t.Fatalf("a world is active")
	}
	c := NewChan[int]()
	sum := 0
	for i := 1; i <= 4; i++ {
		i := i
		Go("worker", func() { c.Send(i) })
	}
	for i := 0; i < 4; i++ {
		sum += c.Recv()
	}
	if sum != 10 {
		t.Fatalf("sum %d", sum)
	}
	if W == nil || !W.ambient {
		t.Fatalf("no ambient world")
	}
	res := run(1, func() {})
	if res.Outcome != Completed {
		t.Fatalf("outcome %v", res.Outcome)
	}
	if W != nil {
		t.Fatalf("world left behind")
	}
}

func TestNumCPUPerParty(t *testing.T) {
	seen := map[int]bool{}
	for seed := uint64(0); seed < 200; seed++ {
		var a1, a2, b int
		run(seed, func() {
			done := NewChan[int](2)
			GoParty("A", "x", func() { a1 = NumCPU(); a2 = NumCPU(); done.Send(0) })
			GoParty("B", "x", func() { b = NumCPU(); done.Send(0) })
			done.Recv()
			done.Recv()
		})
		if a1 != a2 || a1 == 0 || b == 0 {
			t.Fatalf("seed %d: %d %d %d", seed, a1, a2, b)
		}
		seen[a1] = true
		if a1 != b {
			seen[-1] = true
		}
	}
	if len(seen) < 8 || !seen[-1] || !seen[1] {
		t.Fatalf("CPU counts seen: %v", seen)
	}
}
