package rt

import (
	"cmp"
	"fmt"
	"iter"
	"reflect"
	"sort"
)

// MapSeq is the simulated `range m` over a map (build variant c08): the key
// set is snapshotted, ordered canonically and then permuted by the tape;
// entries deleted during the iteration are skipped, entries added are not
// visited - a refinement of what the Go specification allows.
func MapSeq[M ~map[K]V, K comparable, V any](m M) iter.Seq2[K, V] {
	return func(yield func(K, V) bool) {
		if len(m) == 0 {
			return
		}
		keys := make([]K, 0, len(m))
		for k := range m {
			keys = append(keys, k)
		}
		sortKeys(keys)
		permute(keys)
		Reach("map.range")
		for _, k := range keys {
			v, ok := m[k]
			if !ok {
				continue
			}
			if !yield(k, v) {
				return
			}
		}
	}
}

func sortKeys[K comparable](keys []K) {
	if len(keys) < 2 {
		return
	}
	switch ks := any(keys).(type) {
	case []string:
		sort.Strings(ks)
		return
	case []int:
		sort.Ints(ks)
		return
	}
	rv := reflect.ValueOf(keys[0])
	switch rv.Kind() {
	case reflect.String:
		sort.Slice(keys, func(i, j int) bool {
			return reflect.ValueOf(keys[i]).String() < reflect.ValueOf(keys[j]).String()
		})
	case reflect.Int, reflect.Int8, reflect.Int16, reflect.Int32, reflect.Int64:
		sort.Slice(keys, func(i, j int) bool {
			return reflect.ValueOf(keys[i]).Int() < reflect.ValueOf(keys[j]).Int()
		})
	case reflect.Uint, reflect.Uint8, reflect.Uint16, reflect.Uint32, reflect.Uint64, reflect.Uintptr:
		sort.Slice(keys, func(i, j int) bool {
			return reflect.ValueOf(keys[i]).Uint() < reflect.ValueOf(keys[j]).Uint()
		})
	case reflect.Struct, reflect.Array, reflect.Bool, reflect.Float32, reflect.Float64:
		// value types without pointers inside print deterministically
		if hasPointers(rv.Type()) {
			Reach("map.range.unsortable-key")
			return
		}
		sort.Slice(keys, func(i, j int) bool {
			return cmp.Less(fmt.Sprintf("%#v", keys[i]), fmt.Sprintf("%#v", keys[j]))
		})
	default:
		// pointer-like keys have no run-independent order; the native
		// (random) order is kept and the run is flagged.
		Reach("map.range.unsortable-key")
	}
}

func hasPointers(t reflect.Type) bool {
	switch t.Kind() {
	case reflect.Pointer, reflect.Chan, reflect.Func, reflect.Interface, reflect.Map, reflect.Slice, reflect.UnsafePointer:
		return true
	case reflect.Struct:
		for i := 0; i < t.NumField(); i++ {
			if hasPointers(t.Field(i).Type) {
				return true
			}
		}
	case reflect.Array:
		return hasPointers(t.Elem())
	}
	return false
}

func permute[K any](keys []K) {
	n := len(keys)
	if n < 2 || W == nil {
		return
	}
	switch Choose(SMap, 4) {
	case 0: // canonical order
	case 1: // reversed
		for i, j := 0, n-1; i < j; i, j = i+1, j-1 {
			keys[i], keys[j] = keys[j], keys[i]
		}
		Reach("map.range.permuted")
	case 2: // rotation
		k := Choose(SMap, n)
		rot := append(append([]K(nil), keys[k:]...), keys[:k]...)
		copy(keys, rot)
		Reach("map.range.permuted")
	case 3: // shuffle
		r := splitmix{uint64(W.Tape.Raw(SMap, nil))}
		for i := n - 1; i > 0; i-- {
			j := int(r.next() % uint64(i+1))
			keys[i], keys[j] = keys[j], keys[i]
		}
		Reach("map.range.permuted")
	}
}
