package rt

import "iter"

// Chan is a simulated Go channel. Blocked senders and receivers are served in
// FIFO order like the runtime.
type Chan[T any] struct {
	buf    []T
	cap    int
	closed bool
	recvq  []*chanWaiter[T]
	sendq  []*chanWaiter[T]
}

type chanWaiter[T any] struct {
	t    *Task
	val  T
	ok   bool
	done bool
	sel  *selState // non-nil if part of a select
	idx  int
}

// NewChan is make(chan T, n).
func NewChan[T any](n ...int) *Chan[T] {
	c := &Chan[T]{}
	if len(n) > 0 {
		if n[0] < 0 {
			panic("makechan: size out of range")
		}
		c.cap = n[0]
	}
	return c
}

func blockForever(why string) {
	for {
		Park(why)
	}
}

// Send is c <- v.
func (c *Chan[T]) Send(v T) {
	Yield()
	if c == nil {
		blockForever("send on nil channel")
	}
	if c.closed {
		panic("send on closed channel")
	}
	for len(c.recvq) > 0 {
		r := c.recvq[0]
		c.recvq = c.recvq[1:]
		if r.sel != nil && !r.sel.claim(r.idx) {
			continue
		}
		r.val, r.ok, r.done = v, true, true
		Ready(r.t)
		Progress()
		Yield() // the receiver may run before the sender's next statement
		return
	}
	if len(c.buf) < c.cap {
		c.buf = append(c.buf, v)
		Progress()
		Yield()
		return
	}
	w := &chanWaiter[T]{t: Current(), val: v}
	c.sendq = append(c.sendq, w)
	for !w.done {
		Park("chan send")
	}
	if !w.ok {
		panic("send on closed channel")
	}
}

// Recv is <-c.
func (c *Chan[T]) Recv() T {
	v, _ := c.Recv2()
	return v
}

// Recv2 is v, ok := <-c.
func (c *Chan[T]) Recv2() (T, bool) {
	Yield()
	if c == nil {
		blockForever("receive on nil channel")
	}
	if v, ok, ready := c.tryRecv(); ready {
		if ok {
			Progress()
		}
		return v, ok
	}
	w := &chanWaiter[T]{t: Current()}
	c.recvq = append(c.recvq, w)
	for !w.done {
		Park("chan receive")
	}
	return w.val, w.ok
}

func (c *Chan[T]) tryRecv() (v T, ok, ready bool) {
	if len(c.buf) > 0 {
		v = c.buf[0]
		var zero T
		c.buf[0] = zero
		c.buf = c.buf[1:]
		// A blocked sender can now put its value into the buffer.
		for len(c.sendq) > 0 {
			s := c.sendq[0]
			c.sendq = c.sendq[1:]
			if s.sel != nil && !s.sel.claim(s.idx) {
				continue
			}
			c.buf = append(c.buf, s.val)
			s.ok, s.done = true, true
			Ready(s.t)
			break
		}
		return v, true, true
	}
	for len(c.sendq) > 0 {
		s := c.sendq[0]
		c.sendq = c.sendq[1:]
		if s.sel != nil && !s.sel.claim(s.idx) {
			continue
		}
		v = s.val
		s.ok, s.done = true, true
		Ready(s.t)
		return v, true, true
	}
	if c.closed {
		return v, false, true
	}
	return v, false, false
}

// Close is close(c).
func (c *Chan[T]) Close() {
	Yield()
	if c == nil {
		panic("close of nil channel")
	}
	if c.closed {
		panic("close of closed channel")
	}
	c.closed = true
	Progress()
	for _, r := range c.recvq {
		if r.sel != nil && !r.sel.claim(r.idx) {
			continue
		}
		var zero T
		r.val, r.ok, r.done = zero, false, true
		Ready(r.t)
	}
	c.recvq = nil
	for _, s := range c.sendq {
		if s.sel != nil && !s.sel.claim(s.idx) {
			continue
		}
		s.ok, s.done = false, true
		Ready(s.t)
	}
	c.sendq = nil
}

// Len is len(c).
func (c *Chan[T]) Len() int {
	if c == nil {
		return 0
	}
	return len(c.buf)
}

// Cap is cap(c).
func (c *Chan[T]) Cap() int {
	if c == nil {
		return 0
	}
	return c.cap
}

// Seq is `range c`.
func (c *Chan[T]) Seq() iter.Seq[T] {
	return func(yield func(T) bool) {
		for {
			v, ok := c.Recv2()
			if !ok {
				return
			}
			if !yield(v) {
				return
			}
		}
	}
}

// ---- select ----

type selState struct {
	chosen int
	t      *Task
}

func (s *selState) claim(idx int) bool {
	if s.chosen >= 0 {
		return false
	}
	s.chosen = idx
	return true
}

// Case is one arm of a Select.
type Case interface {
	ready() bool
	fire()
	enqueue(s *selState, idx int)
	dequeue()
	finish()
}

type recvCase[T any] struct {
	c   *Chan[T]
	dst *T
	ok  *bool
	w   *chanWaiter[T]
}

// RecvCase is `case *dst, *ok = <-c` (dst and ok may be nil).
func RecvCase[T any](c *Chan[T], dst *T, ok *bool) Case {
	return &recvCase[T]{c: c, dst: dst, ok: ok}
}

func (k *recvCase[T]) ready() bool {
	c := k.c
	return c != nil && (len(c.buf) > 0 || len(liveWaiters(c.sendq)) > 0 || c.closed)
}
func (k *recvCase[T]) fire() {
	v, ok, _ := k.c.tryRecv()
	k.set(v, ok)
}
func (k *recvCase[T]) set(v T, ok bool) {
	if k.dst != nil {
		*k.dst = v
	}
	if k.ok != nil {
		*k.ok = ok
	}
}
func (k *recvCase[T]) enqueue(s *selState, idx int) {
	if k.c == nil {
		return
	}
	k.w = &chanWaiter[T]{t: s.t, sel: s, idx: idx}
	k.c.recvq = append(k.c.recvq, k.w)
}
func (k *recvCase[T]) dequeue() {
	if k.c == nil || k.w == nil {
		return
	}
	k.c.recvq = removeWaiter(k.c.recvq, k.w)
}
func (k *recvCase[T]) finish() { k.set(k.w.val, k.w.ok) }

type sendCase[T any] struct {
	c *Chan[T]
	v T
	w *chanWaiter[T]
}

// SendCase is `case c <- v`.
func SendCase[T any](c *Chan[T], v T) Case { return &sendCase[T]{c: c, v: v} }

func (k *sendCase[T]) ready() bool {
	c := k.c
	return c != nil && (c.closed || len(liveWaiters(c.recvq)) > 0 || len(c.buf) < c.cap)
}
func (k *sendCase[T]) fire() {
	c := k.c
	if c.closed {
		panic("send on closed channel")
	}
	for len(c.recvq) > 0 {
		r := c.recvq[0]
		c.recvq = c.recvq[1:]
		if r.sel != nil && !r.sel.claim(r.idx) {
			continue
		}
		r.val, r.ok, r.done = k.v, true, true
		Ready(r.t)
		return
	}
	c.buf = append(c.buf, k.v)
}
func (k *sendCase[T]) enqueue(s *selState, idx int) {
	if k.c == nil {
		return
	}
	k.w = &chanWaiter[T]{t: s.t, val: k.v, sel: s, idx: idx}
	k.c.sendq = append(k.c.sendq, k.w)
}
func (k *sendCase[T]) dequeue() {
	if k.c == nil || k.w == nil {
		return
	}
	k.c.sendq = removeWaiter(k.c.sendq, k.w)
}
func (k *sendCase[T]) finish() {
	if !k.w.ok {
		panic("send on closed channel")
	}
}

func liveWaiters[T any](q []*chanWaiter[T]) []*chanWaiter[T] {
	var out []*chanWaiter[T]
	for _, w := range q {
		if w.sel == nil || w.sel.chosen < 0 {
			out = append(out, w)
		}
	}
	return out
}

func removeWaiter[T any](q []*chanWaiter[T], w *chanWaiter[T]) []*chanWaiter[T] {
	for i, x := range q {
		if x == w {
			return append(q[:i:i], q[i+1:]...)
		}
	}
	return q
}

// Select is the general select statement. hasDefault selects the default arm
// (returned as -1) when no case is ready. Among ready cases the tape chooses,
// as the runtime chooses pseudo-randomly.
func Select(hasDefault bool, cases ...Case) int {
	Yield()
	var ready []int
	for i, c := range cases {
		if c.ready() {
			ready = append(ready, i)
		}
	}
	if len(ready) > 0 {
		i := ready[Choose(SSched, len(ready))]
		cases[i].fire()
		return i
	}
	if hasDefault {
		return -1
	}
	s := &selState{chosen: -1, t: Current()}
	for i, c := range cases {
		c.enqueue(s, i)
	}
	for s.chosen < 0 {
		Park("select")
	}
	for i, c := range cases {
		if i != s.chosen {
			c.dequeue()
		}
	}
	cases[s.chosen].finish()
	return s.chosen
}

// Offer is a non-blocking send that may be used from kernel context (a timer
// event): the value goes to a waiting receiver or into the buffer; if neither
// is possible it is dropped and false is returned (what the runtime's timers
// do with their one-slot channels). It is not a scheduling point.
func (c *Chan[T]) Offer(v T) bool {
	if c == nil || c.closed {
		return false
	}
	for len(c.recvq) > 0 {
		r := c.recvq[0]
		c.recvq = c.recvq[1:]
		if r.sel != nil && !r.sel.claim(r.idx) {
			continue
		}
		r.val, r.ok, r.done = v, true, true
		Ready(r.t)
		return true
	}
	if len(c.buf) < c.cap {
		c.buf = append(c.buf, v)
		return true
	}
	return false
}

// RecvSel is the receive arm of a rewritten select statement: after Select
// chose it, Val and Ok hold what `v, ok := <-c` would have delivered.
type RecvSel[T any] struct {
	recvCase[T]
	Val T
	Ok  bool
}

// RecvOf is `case ... <-c` of a select statement.
func RecvOf[T any](c *Chan[T]) *RecvSel[T] {
	r := &RecvSel[T]{}
	r.c = c
	r.dst = &r.Val
	r.ok = &r.Ok
	return r
}
