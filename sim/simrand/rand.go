// Package simrand replaces crypto/rand in the simulated build: one AES-CTR
// DRBG per consumer, all derived from the run seed, so that one party's draw
// count never shifts another party's stream.
package simrand

import (
	"crypto/aes"
	"crypto/cipher"
	"crypto/sha256"
	"encoding/binary"
	"io"
	"math/big"
	"runtime"
	"strings"
	"time"

	"verifsim/sim/rt"
)

var (
	seed    uint64
	streams = map[string]*DRBG{}
)

// Reseed starts a fresh family of streams (called at the start of each run).
func Reseed(s uint64) {
	seed = s
	streams = map[string]*DRBG{}
}

// DRBG is a deterministic random byte generator.
type DRBG struct {
	label string
	ctr   cipher.Stream
	N     uint64
}

// New returns an independent generator for (seed, label).
func New(seed uint64, label string) *DRBG {
	var b [8]byte
	binary.LittleEndian.PutUint64(b[:], seed)
	h := sha256.New()
	h.Write(b[:])
	h.Write([]byte(label))
	sum := h.Sum(nil)
	blk, err := aes.NewCipher(sum[:16])
	if err != nil {
		panic(err)
	}
	return &DRBG{label: label, ctr: cipher.NewCTR(blk, sum[16:32])}
}

// Stream returns the run's generator for label.
func Stream(label string) *DRBG {
	d := streams[label]
	if d == nil {
		d = New(seed, label)
		streams[label] = d
	}
	return d
}

// Twin returns a generator of its own that produces the same bytes as a fresh Stream(label): two
// machines cloned from one image, or two programs started with the same fixed seed.
func Twin(label string) *DRBG { return New(seed, label) }

// Read fills p. A one-byte read issued by crypto/internal/randutil's
// MaybeReadByte (which the standard library performs at random to defeat
// exactly the determinism we need) is answered without advancing the stream.
func (d *DRBG) Read(p []byte) (int, error) {
	if len(p) == 1 && fromMaybeReadByte() {
		p[0] = 0
		return 1, nil
	}
	for i := range p {
		p[i] = 0
	}
	d.ctr.XORKeyStream(p, p)
	d.N += uint64(len(p))
	return len(p), nil
}

func fromMaybeReadByte() bool {
	var pcs [8]uintptr
	n := runtime.Callers(3, pcs[:])
	frames := runtime.CallersFrames(pcs[:n])
	for {
		f, more := frames.Next()
		if strings.HasSuffix(f.Function, "randutil.MaybeReadByte") {
			return true
		}
		if !more {
			return false
		}
	}
}

type ambient struct{}

func (ambient) Read(p []byte) (int, error) {
	label := "ambient:outside"
	if t := rt.Current(); t != nil {
		label = "ambient:" + t.Party
	}
	return Stream(label).Read(p)
}

// Reader is crypto/rand.Reader: the ambient stream of the calling task's party.
var Reader io.Reader = ambient{}

// Read is crypto/rand.Read.
func Read(b []byte) (int, error) { return io.ReadFull(Reader, b) }

// Int is crypto/rand.Int.
func Int(r io.Reader, max *big.Int) (*big.Int, error) {
	if max.Sign() <= 0 {
		panic("crypto/rand: argument to Int is <= 0")
	}
	n := new(big.Int).Sub(max, big.NewInt(1))
	bitLen := n.BitLen()
	if bitLen == 0 {
		return new(big.Int), nil
	}
	k := (bitLen + 7) / 8
	b := uint(bitLen % 8)
	if b == 0 {
		b = 8
	}
	buf := make([]byte, k)
	for {
		if _, err := io.ReadFull(r, buf); err != nil {
			return nil, err
		}
		buf[0] &= uint8(int(1<<b) - 1)
		n.SetBytes(buf)
		if n.Cmp(max) < 0 {
			return n, nil
		}
	}
}

// Text is crypto/rand.Text.
func Text() string {
	const alphabet = "ABCDEFGHIJKLMNOPQRSTUVWXYZ234567"
	b := make([]byte, 26)
	Read(b)
	for i := range b {
		b[i] = alphabet[b[i]%32]
	}
	return string(b)
}

// ShortReader wraps a reader and never returns bytes across a multiple of
// Block of its stream position in one call - what a buffered source does at
// the end of its buffer. A short read is legal behaviour of an io.Reader.
type ShortReader struct {
	R      io.Reader
	Block  int
	pos    int
	Shorts int
}

// Read implements io.Reader.
func (s *ShortReader) Read(p []byte) (int, error) {
	n := len(p)
	if room := s.Block - s.pos%s.Block; n > room {
		n = room
		s.Shorts++
	}
	k, err := s.R.Read(p[:n])
	s.pos += k
	return k, err
}

// Yielding makes every read of a randomness source a scheduling point: a read
// from the operating system's generator is a system call, other goroutines of
// the process run meanwhile. Used where several sessions of one process share a
// source.
//
// StallOneIn > 0: one read in StallOneIn (tape-chosen, stream "fault") takes a
// millisecond of virtual time before or after the bytes were produced - the
// generator of a starved or busy machine - so that everything else in the
// process runs until it blocks while this caller is inside Read.
type Yielding struct {
	R          io.Reader
	StallOneIn int
	Stalls     int
}

// Read implements io.Reader.
func (y *Yielding) Read(p []byte) (int, error) {
	if !rt.Active() {
		return y.R.Read(p)
	}
	stall := 0
	if y.StallOneIn > 0 && rt.Choose(rt.SFault, y.StallOneIn) == 0 {
		stall = 1 + rt.Choose(rt.SFault, 2)
		y.Stalls++
		rt.Reach("randomness-source.stalled-read")
	}
	rt.Yield()
	if stall == 1 {
		rt.Sleep(time.Millisecond)
	}
	n, err := y.R.Read(p)
	rt.Yield()
	if stall == 2 {
		rt.Sleep(time.Millisecond)
	}
	return n, err
}
