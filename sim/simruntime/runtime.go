// Package simruntime is the simulator's version of package runtime for the library packages:
// what describes or drives the scheduler is the simulator's (the number of CPUs is a per-run
// tape choice, so a worker pool sized by it has 1..16 workers whatever the host has, and
// Gosched is a scheduling point); everything else is the real package's. Function values are
// re-exported as variables so that Caller(0) still names the caller.
package simruntime

import (
	"runtime"

	"verifsim/sim/rt"
)

type (
	Frame              = runtime.Frame
	Frames             = runtime.Frames
	Func               = runtime.Func
	MemStats           = runtime.MemStats
	Error              = runtime.Error
	TypeAssertionError = runtime.TypeAssertionError
	PanicNilError      = runtime.PanicNilError
	Pinner             = runtime.Pinner
	StackRecord        = runtime.StackRecord
)

const (
	GOOS     = runtime.GOOS
	GOARCH   = runtime.GOARCH
	Compiler = runtime.Compiler
)

var (
	Caller         = runtime.Caller
	Callers        = runtime.Callers
	CallersFrames  = runtime.CallersFrames
	FuncForPC      = runtime.FuncForPC
	GC             = runtime.GC
	ReadMemStats   = runtime.ReadMemStats
	Stack          = runtime.Stack
	Version        = runtime.Version
	GOROOT         = runtime.GOROOT
	NumCgoCall     = runtime.NumCgoCall
	SetFinalizer   = runtime.SetFinalizer
	KeepAlive      = runtime.KeepAlive
	LockOSThread   = runtime.LockOSThread
	UnlockOSThread = runtime.UnlockOSThread
	Breakpoint     = runtime.Breakpoint
)

// NumCPU is the simulated machine's CPU count: drawn from the tape once per run.
func NumCPU() int { return rt.NumCPU() }

// GOMAXPROCS reports (and pretends to set) the simulated machine's value.
func GOMAXPROCS(n int) int { return NumCPU() }

// Gosched is a scheduling point.
func Gosched() { rt.Yield() }

// NumGoroutine counts the simulator's tasks that have not ended.
func NumGoroutine() int { return rt.LiveTasks() }

// Goexit ends the calling task.
func Goexit() { runtime.Goexit() }
