// Package simruntime is the simulator's version of package runtime for the library packages:
// what describes or drives the scheduler is the simulator's (the number of CPUs is a per-run
// tape choice, so a worker pool sized by it has 1..16 workers whatever the host has, and
// Gosched is a scheduling point); everything else is the real package's. Function values are
// re-exported as variables so that Caller(0) still names the caller.
package simruntime

import (
	"reflect"
	"runtime"
	"sort"
	"sync"
	"time"

	"verifsim/sim/rt"
)

type (
	Frame              = runtime.Frame
	Frames             = runtime.Frames
	Func               = runtime.Func
	MemStats           = runtime.MemStats
	Error              = runtime.Error
	TypeAssertionError = runtime.TypeAssertionError
	PanicNilError      = runtime.PanicNilError
	Pinner             = runtime.Pinner
	StackRecord        = runtime.StackRecord
)

const (
	GOOS     = runtime.GOOS
	GOARCH   = runtime.GOARCH
	Compiler = runtime.Compiler
)

var (
	Caller         = runtime.Caller
	Callers        = runtime.Callers
	CallersFrames  = runtime.CallersFrames
	FuncForPC      = runtime.FuncForPC
	GC             = runtime.GC
	ReadMemStats   = runtime.ReadMemStats
	Stack          = runtime.Stack
	Version        = runtime.Version
	GOROOT         = runtime.GOROOT
	NumCgoCall     = runtime.NumCgoCall
	KeepAlive      = runtime.KeepAlive
	LockOSThread   = runtime.LockOSThread
	UnlockOSThread = runtime.UnlockOSThread
	Breakpoint     = runtime.Breakpoint
)

// NumCPU is the simulated machine's CPU count: drawn from the tape once per run.
func NumCPU() int { return rt.NumCPU() }

// GOMAXPROCS reports (and pretends to set) the simulated machine's value.
func GOMAXPROCS(n int) int { return NumCPU() }

// Gosched is a scheduling point.
func Gosched() { rt.Yield() }

// NumGoroutine counts the simulator's tasks that have not ended.
func NumGoroutine() int { return rt.LiveTasks() }

// Goexit ends the calling task.
func Goexit() { runtime.Goexit() }

// ---- finalizers ----
//
// Garbage collection is a source of nondeterminism like the scheduler: when a cycle happens
// decides when a finalizer runs. In a simulated run SetFinalizer installs a trampoline as the
// real finalizer; it only files (object, finalizer) in a queue. A cycle of the simulated
// machine (rt.SetGCHook: at tape-chosen scheduling points) runs the real collector to completion,
// waits until the runtime's finalizer goroutine has worked off what became due, and starts the
// filed finalizers of this run as tasks, in registration order. What is unreachable at a given
// scheduling point is a property of the program state, so the outcome replays.

type dueFinalizer struct {
	seq   uint64
	epoch uint64
	party string
	run   func()
}

var (
	finMu   sync.Mutex
	finDue  []dueFinalizer
	finSeq  uint64
	finHook uint64 // run epoch for which the GC hook is installed
)

// SetFinalizer is runtime.SetFinalizer; inside a simulated run the finalizer is started by the
// simulator's garbage-collection cycles.
func SetFinalizer(obj any, finalizer any) {
	if !rt.Active() || finalizer == nil || rt.RunEpoch() == 0 {
		runtime.SetFinalizer(obj, finalizer)
		return
	}
	fv := reflect.ValueOf(finalizer)
	ot := reflect.TypeOf(obj)
	if fv.Kind() != reflect.Func || fv.Type().NumIn() != 1 || !ot.AssignableTo(fv.Type().In(0)) {
		runtime.SetFinalizer(obj, finalizer) // let the runtime report the misuse
		return
	}
	finSeq++
	seq, epoch := finSeq, rt.RunEpoch()
	party := ""
	if cur := rt.Current(); cur != nil {
		party = cur.Party
	}
	tramp := reflect.MakeFunc(reflect.FuncOf([]reflect.Type{ot}, nil, false), func(args []reflect.Value) []reflect.Value {
		o := args[0]
		finMu.Lock()
		finDue = append(finDue, dueFinalizer{seq: seq, epoch: epoch, party: party, run: func() { fv.Call([]reflect.Value{o}) }})
		finMu.Unlock()
		return nil
	})
	runtime.SetFinalizer(obj, tramp.Interface())
	rt.Reach("runtime.finalizer-registered")
	if finHook != epoch {
		finHook = epoch
		rt.SetGCHook(collect)
	}
}

type sentinel struct{ _ [16]byte }

// collect is one garbage-collection cycle of the simulated machine.
func collect() {
	rt.Reach("runtime.gc-cycle")
	for round := 0; round < 2; round++ {
		done := make(chan struct{})
		s := new(sentinel)
		runtime.SetFinalizer(s, func(*sentinel) { close(done) })
		s = nil
		runtime.GC()
		select {
		case <-done:
		case <-time.After(5 * time.Second):
			// the runtime did not get to the sentinel: go on with what is filed (never a verdict by itself)
		}
	}
	finMu.Lock()
	due := finDue
	finDue = nil
	finMu.Unlock()
	epoch := rt.RunEpoch()
	sort.Slice(due, func(i, j int) bool { return due[i].seq < due[j].seq })
	for _, d := range due {
		if d.epoch != epoch {
			continue // an object of an earlier run
		}
		rt.Reach("runtime.finalizer-started")
		rt.GoParty(d.party, "finalizer", d.run)
	}
}

// Cleanup is runtime.Cleanup for AddCleanup.
type Cleanup struct {
	real    runtime.Cleanup
	stopped *bool
}

// Stop cancels the cleanup.
func (c Cleanup) Stop() {
	if c.stopped != nil {
		*c.stopped = true
	}
	c.real.Stop()
}

// AddCleanup is runtime.AddCleanup; inside a simulated run the cleanup is started by the
// simulator's garbage-collection cycles, like a finalizer.
func AddCleanup[T, S any](ptr *T, cleanup func(S), arg S) Cleanup {
	if !rt.Active() || rt.RunEpoch() == 0 {
		return Cleanup{real: runtime.AddCleanup(ptr, cleanup, arg)}
	}
	finSeq++
	seq, epoch := finSeq, rt.RunEpoch()
	party := ""
	if cur := rt.Current(); cur != nil {
		party = cur.Party
	}
	stopped := new(bool)
	c := runtime.AddCleanup(ptr, func(a S) {
		finMu.Lock()
		finDue = append(finDue, dueFinalizer{seq: seq, epoch: epoch, party: party, run: func() {
			if !*stopped {
				cleanup(a)
			}
		}})
		finMu.Unlock()
	}, arg)
	rt.Reach("runtime.finalizer-registered")
	if finHook != epoch {
		finHook = epoch
		rt.SetGCHook(collect)
	}
	return Cleanup{real: c, stopped: stopped}
}
