package simtime

import (
	"testing"

	"verifsim/sim/rt"
)

func run(seed uint64, root func()) rt.Result {
	return rt.Run(rt.Config{NoProgress: 100000}, rt.NewTape(seed), root)
}

// A select with a timeout arm: the data arm wins when the sender is faster than
// the timer, the timer arm when it is slower; virtual time is what decides.
func TestSelectTimeout(t *testing.T) {
	for seed := uint64(0); seed < 100; seed++ {
		for _, senderDelay := range []Duration{Second, 3 * Second} {
			var got string
			var took Duration
			res := run(seed, func() {
				c := rt.NewChan[int]()
				rt.Go("sender", func() {
					Sleep(senderDelay)
					switch rt.Select(true, rt.SendCase(c, 7)) {
					case 0:
					default:
					}
				})
				rt.Go("receiver", func() {
					start := Now()
					r, tm := rt.RecvOf(c), rt.RecvOf(After(2*Second))
					switch rt.Select(false, r, tm) {
					case 0:
						got = "data"
						if r.Val != 7 || !r.Ok {
							got = "bad data"
						}
					case 1:
						got = "timeout"
					}
					took = Since(start)
				})
			})
			if res.Outcome != rt.Completed {
				t.Fatalf("seed %d: outcome %v", seed, res.Outcome)
			}
			want, wantTook := "data", Second
			if senderDelay > 2*Second {
				want, wantTook = "timeout", 2*Second
			}
			if got != want || took != wantTook {
				t.Fatalf("seed %d delay %v: got %q after %v, want %q after %v", seed, senderDelay, got, took, want, wantTook)
			}
		}
	}
}

func TestTimerStopResetAfterFuncTicker(t *testing.T) {
	for seed := uint64(0); seed < 50; seed++ {
		fired, ticks := 0, 0
		var at Duration
		res := run(seed, func() {
			stopped := AfterFunc(Second, func() { fired += 100 })
			AfterFunc(2*Second, func() { fired++; at = rt.Now() })
			if !stopped.Stop() {
				t.Errorf("Stop of a pending timer returned false")
			}
			tm := NewTimer(Hour)
			tm.Reset(3 * Second)
			tm.C.Recv()
			if rt.Now() != 3*Second {
				t.Errorf("timer fired at %v", rt.Now())
			}
			tk := NewTicker(Second)
			for i := 0; i < 5; i++ {
				tk.C.Recv()
				ticks++
			}
			tk.Stop()
		})
		if res.Outcome != rt.Completed || fired != 1 || at != 2*Second || ticks != 5 {
			t.Fatalf("seed %d: outcome %v fired %d at %v ticks %d", seed, res.Outcome, fired, at, ticks)
		}
	}
}

// A ticker nobody stops must not keep the run alive for ever.
func TestLeakedTickerEnds(t *testing.T) {
	res := run(1, func() {
		NewTicker(Millisecond)
		Sleep(10 * Millisecond)
	})
	if res.Outcome != rt.Completed {
		t.Fatalf("outcome %v", res.Outcome)
	}
}
