// Package simtime is the simulator's version of package time: the clock is the
// kernel's virtual clock (it advances only when no task can run), Sleep parks
// the task, timers are kernel events. Everything that does not read a clock is
// the real package's. The overlay rewriter substitutes it for "time" in the
// library packages, so a deadline, retry pause or timeout added to the code
// under test is decided by the simulator and replays exactly.
package simtime

import (
	"time"

	"verifsim/sim/rt"
)

type (
	Duration   = time.Duration
	Time       = time.Time
	Month      = time.Month
	Weekday    = time.Weekday
	Location   = time.Location
	ParseError = time.ParseError
)

const (
	Nanosecond  = time.Nanosecond
	Microsecond = time.Microsecond
	Millisecond = time.Millisecond
	Second      = time.Second
	Minute      = time.Minute
	Hour        = time.Hour

	Layout      = time.Layout
	ANSIC       = time.ANSIC
	UnixDate    = time.UnixDate
	RubyDate    = time.RubyDate
	RFC822      = time.RFC822
	RFC822Z     = time.RFC822Z
	RFC850      = time.RFC850
	RFC1123     = time.RFC1123
	RFC1123Z    = time.RFC1123Z
	RFC3339     = time.RFC3339
	RFC3339Nano = time.RFC3339Nano
	Kitchen     = time.Kitchen
	Stamp       = time.Stamp
	StampMilli  = time.StampMilli
	StampMicro  = time.StampMicro
	StampNano   = time.StampNano
	DateTime    = time.DateTime
	DateOnly    = time.DateOnly
	TimeOnly    = time.TimeOnly

	January   = time.January
	February  = time.February
	March     = time.March
	April     = time.April
	May       = time.May
	June      = time.June
	July      = time.July
	August    = time.August
	September = time.September
	October   = time.October
	November  = time.November
	December  = time.December

	Sunday    = time.Sunday
	Monday    = time.Monday
	Tuesday   = time.Tuesday
	Wednesday = time.Wednesday
	Thursday  = time.Thursday
	Friday    = time.Friday
	Saturday  = time.Saturday
)

var (
	UTC   = time.UTC
	Local = time.UTC // the simulated machine lives in UTC

	Unix            = time.Unix
	UnixMilli       = time.UnixMilli
	UnixMicro       = time.UnixMicro
	Date            = time.Date
	Parse           = time.Parse
	ParseInLocation = time.ParseInLocation
	ParseDuration   = time.ParseDuration
	FixedZone       = time.FixedZone
	LoadLocation    = time.LoadLocation
)

// epoch is the wall-clock reading at virtual time zero.
var epoch = time.Date(2026, time.January, 1, 0, 0, 0, 0, time.UTC)

// Virtual converts a wall-clock reading of the simulated machine to virtual time.
func Virtual(t Time) Duration { return t.Sub(epoch) }

// Now is the virtual clock.
func Now() Time { return epoch.Add(rt.Now()) }

// Since is Now().Sub(t).
func Since(t Time) Duration { return Now().Sub(t) }

// Until is t.Sub(Now()).
func Until(t Time) Duration { return t.Sub(Now()) }

// Sleep parks the calling task for d of virtual time.
func Sleep(d Duration) {
	if !rt.Active() {
		return
	}
	rt.Reach("time.sleep")
	rt.Sleep(d)
}

// Timer is time.Timer on the virtual clock.
type Timer struct {
	C     *rt.Chan[Time]
	fn    func()
	party string
	gen   int
	live  bool
}

func (t *Timer) arm(d Duration) {
	t.gen++
	gen := t.gen
	t.live = true
	if d < 0 {
		d = 0
	}
	rt.After(d, func() {
		if !t.live || t.gen != gen {
			return
		}
		t.live = false
		if t.fn != nil {
			rt.SpawnFromEvent(t.party, "time.AfterFunc", t.fn)
			return
		}
		t.C.Offer(Now())
	})
}

// NewTimer is time.NewTimer.
func NewTimer(d Duration) *Timer {
	rt.Reach("time.timer")
	t := &Timer{C: rt.NewChan[Time](1)}
	t.arm(d)
	return t
}

// AfterFunc is time.AfterFunc: f runs as a task of its own when the timer fires.
func AfterFunc(d Duration, f func()) *Timer {
	rt.Reach("time.timer")
	t := &Timer{fn: f}
	if cur := rt.Current(); cur != nil {
		t.party = cur.Party
	}
	t.arm(d)
	return t
}

// After is time.After.
func After(d Duration) *rt.Chan[Time] { return NewTimer(d).C }

// Stop is (*time.Timer).Stop.
func (t *Timer) Stop() bool {
	was := t.live
	t.live = false
	return was
}

// Reset is (*time.Timer).Reset (Go 1.23 semantics: a stale value is discarded).
func (t *Timer) Reset(d Duration) bool {
	was := t.live
	if t.C != nil {
		for t.C.Len() > 0 {
			t.C.Recv()
		}
	}
	t.arm(d)
	return was
}

// Ticker is time.Ticker on the virtual clock. It stops re-arming itself when
// every task of the world has ended.
type Ticker struct {
	C    *rt.Chan[Time]
	d    Duration
	gen  int
	live bool
}

func (t *Ticker) arm() {
	t.gen++
	gen := t.gen
	t.live = true
	rt.After(t.d, func() {
		if !t.live || t.gen != gen || rt.Idle() {
			return
		}
		t.C.Offer(Now())
		t.arm()
	})
}

// NewTicker is time.NewTicker.
func NewTicker(d Duration) *Ticker {
	if d <= 0 {
		panic("non-positive interval for NewTicker")
	}
	rt.Reach("time.timer")
	t := &Ticker{C: rt.NewChan[Time](1), d: d}
	t.arm()
	return t
}

// Tick is time.Tick.
func Tick(d Duration) *rt.Chan[Time] {
	if d <= 0 {
		return nil
	}
	return NewTicker(d).C
}

// Stop is (*time.Ticker).Stop.
func (t *Ticker) Stop() { t.live = false }

// Reset is (*time.Ticker).Reset.
func (t *Ticker) Reset(d Duration) {
	if d <= 0 {
		panic("non-positive interval for Ticker.Reset")
	}
	t.d = d
	t.arm()
}
