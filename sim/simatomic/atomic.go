// Package simatomic mirrors sync/atomic; every operation is a scheduling
// point of the simulation kernel (tasks run one at a time, so plain memory
// operations between scheduling points are atomic by construction).
package simatomic

import "verifsim/sim/rt"

func y() { rt.Yield() }

// guard makes an atomic value behave, in every simulated run, as it would in a fresh process: a
// value written during an earlier run (a lazily created pool or cache hanging off a package-level
// object, a global counter) is forgotten when a later run first touches it. A value written
// outside any run (package initialisation, harness preparation) stays. One worker process
// executes thousands of runs; without this, run k would start from what runs 1..k-1 left in
// package-level state of the code under test and would not replay in a fresh process.
type guard struct {
	ep  uint64
	set bool
}

func fresh[T any](g *guard, v *T, write bool) {
	cur := rt.RunEpoch()
	if g.set && g.ep != 0 && cur != 0 && g.ep != cur {
		// (a harness that reads a counter after its run has ended - cur == 0 - sees the run's value)
		var zero T
		*v = zero
		g.set = false
		rt.Reach("atomic.value-of-an-earlier-run-forgotten")
	}
	if write {
		g.ep, g.set = cur, true
	}
}

// Int32 mirrors atomic.Int32.
type Int32 struct {
	v int32
	g guard
}

func (x *Int32) Load() int32     { y(); fresh(&x.g, &x.v, false); return x.v }
func (x *Int32) Store(val int32) { y(); fresh(&x.g, &x.v, true); defer y(); x.v = val }
func (x *Int32) Swap(new int32) int32 {
	y()
	fresh(&x.g, &x.v, true)
	defer y()
	old := x.v
	x.v = new
	return old
}
func (x *Int32) Add(delta int32) int32 { y(); fresh(&x.g, &x.v, true); x.v += delta; return x.v }
func (x *Int32) And(mask int32) int32 {
	y()
	fresh(&x.g, &x.v, true)
	old := x.v
	x.v &= mask
	return old
}
func (x *Int32) Or(mask int32) int32 {
	y()
	fresh(&x.g, &x.v, true)
	old := x.v
	x.v |= mask
	return old
}
func (x *Int32) CompareAndSwap(old, new int32) bool {
	y()
	fresh(&x.g, &x.v, true)
	defer y()
	if x.v == old {
		x.v = new
		return true
	}
	return false
}

func LoadInt32(addr *int32) int32             { y(); return *addr }
func StoreInt32(addr *int32, val int32)       { y(); defer y(); *addr = val }
func AddInt32(addr *int32, delta int32) int32 { y(); *addr += delta; return *addr }
func SwapInt32(addr *int32, new int32) int32  { y(); defer y(); old := *addr; *addr = new; return old }
func CompareAndSwapInt32(addr *int32, old, new int32) bool {
	y()
	defer y()
	if *addr == old {
		*addr = new
		return true
	}
	return false
}

// Int64 mirrors atomic.Int64.
type Int64 struct {
	v int64
	g guard
}

func (x *Int64) Load() int64     { y(); fresh(&x.g, &x.v, false); return x.v }
func (x *Int64) Store(val int64) { y(); fresh(&x.g, &x.v, true); defer y(); x.v = val }
func (x *Int64) Swap(new int64) int64 {
	y()
	fresh(&x.g, &x.v, true)
	defer y()
	old := x.v
	x.v = new
	return old
}
func (x *Int64) Add(delta int64) int64 { y(); fresh(&x.g, &x.v, true); x.v += delta; return x.v }
func (x *Int64) And(mask int64) int64 {
	y()
	fresh(&x.g, &x.v, true)
	old := x.v
	x.v &= mask
	return old
}
func (x *Int64) Or(mask int64) int64 {
	y()
	fresh(&x.g, &x.v, true)
	old := x.v
	x.v |= mask
	return old
}
func (x *Int64) CompareAndSwap(old, new int64) bool {
	y()
	fresh(&x.g, &x.v, true)
	defer y()
	if x.v == old {
		x.v = new
		return true
	}
	return false
}

func LoadInt64(addr *int64) int64             { y(); return *addr }
func StoreInt64(addr *int64, val int64)       { y(); defer y(); *addr = val }
func AddInt64(addr *int64, delta int64) int64 { y(); *addr += delta; return *addr }
func SwapInt64(addr *int64, new int64) int64  { y(); defer y(); old := *addr; *addr = new; return old }
func CompareAndSwapInt64(addr *int64, old, new int64) bool {
	y()
	defer y()
	if *addr == old {
		*addr = new
		return true
	}
	return false
}

// Uint32 mirrors atomic.Uint32.
type Uint32 struct {
	v uint32
	g guard
}

func (x *Uint32) Load() uint32     { y(); fresh(&x.g, &x.v, false); return x.v }
func (x *Uint32) Store(val uint32) { y(); fresh(&x.g, &x.v, true); defer y(); x.v = val }
func (x *Uint32) Swap(new uint32) uint32 {
	y()
	fresh(&x.g, &x.v, true)
	defer y()
	old := x.v
	x.v = new
	return old
}
func (x *Uint32) Add(delta uint32) uint32 { y(); fresh(&x.g, &x.v, true); x.v += delta; return x.v }
func (x *Uint32) And(mask uint32) uint32 {
	y()
	fresh(&x.g, &x.v, true)
	old := x.v
	x.v &= mask
	return old
}
func (x *Uint32) Or(mask uint32) uint32 {
	y()
	fresh(&x.g, &x.v, true)
	old := x.v
	x.v |= mask
	return old
}
func (x *Uint32) CompareAndSwap(old, new uint32) bool {
	y()
	fresh(&x.g, &x.v, true)
	defer y()
	if x.v == old {
		x.v = new
		return true
	}
	return false
}

func LoadUint32(addr *uint32) uint32              { y(); return *addr }
func StoreUint32(addr *uint32, val uint32)        { y(); defer y(); *addr = val }
func AddUint32(addr *uint32, delta uint32) uint32 { y(); *addr += delta; return *addr }
func SwapUint32(addr *uint32, new uint32) uint32 {
	y()
	defer y()
	old := *addr
	*addr = new
	return old
}
func CompareAndSwapUint32(addr *uint32, old, new uint32) bool {
	y()
	defer y()
	if *addr == old {
		*addr = new
		return true
	}
	return false
}

// Uint64 mirrors atomic.Uint64.
type Uint64 struct {
	v uint64
	g guard
}

func (x *Uint64) Load() uint64     { y(); fresh(&x.g, &x.v, false); return x.v }
func (x *Uint64) Store(val uint64) { y(); fresh(&x.g, &x.v, true); defer y(); x.v = val }
func (x *Uint64) Swap(new uint64) uint64 {
	y()
	fresh(&x.g, &x.v, true)
	defer y()
	old := x.v
	x.v = new
	return old
}
func (x *Uint64) Add(delta uint64) uint64 { y(); fresh(&x.g, &x.v, true); x.v += delta; return x.v }
func (x *Uint64) And(mask uint64) uint64 {
	y()
	fresh(&x.g, &x.v, true)
	old := x.v
	x.v &= mask
	return old
}
func (x *Uint64) Or(mask uint64) uint64 {
	y()
	fresh(&x.g, &x.v, true)
	old := x.v
	x.v |= mask
	return old
}
func (x *Uint64) CompareAndSwap(old, new uint64) bool {
	y()
	fresh(&x.g, &x.v, true)
	defer y()
	if x.v == old {
		x.v = new
		return true
	}
	return false
}

func LoadUint64(addr *uint64) uint64              { y(); return *addr }
func StoreUint64(addr *uint64, val uint64)        { y(); defer y(); *addr = val }
func AddUint64(addr *uint64, delta uint64) uint64 { y(); *addr += delta; return *addr }
func SwapUint64(addr *uint64, new uint64) uint64 {
	y()
	defer y()
	old := *addr
	*addr = new
	return old
}
func CompareAndSwapUint64(addr *uint64, old, new uint64) bool {
	y()
	defer y()
	if *addr == old {
		*addr = new
		return true
	}
	return false
}

// Uintptr mirrors atomic.Uintptr.
type Uintptr struct {
	v uintptr
	g guard
}

func (x *Uintptr) Load() uintptr     { y(); fresh(&x.g, &x.v, false); return x.v }
func (x *Uintptr) Store(val uintptr) { y(); fresh(&x.g, &x.v, true); defer y(); x.v = val }
func (x *Uintptr) Swap(new uintptr) uintptr {
	y()
	fresh(&x.g, &x.v, true)
	defer y()
	old := x.v
	x.v = new
	return old
}
func (x *Uintptr) Add(delta uintptr) uintptr { y(); fresh(&x.g, &x.v, true); x.v += delta; return x.v }
func (x *Uintptr) And(mask uintptr) uintptr {
	y()
	fresh(&x.g, &x.v, true)
	old := x.v
	x.v &= mask
	return old
}
func (x *Uintptr) Or(mask uintptr) uintptr {
	y()
	fresh(&x.g, &x.v, true)
	old := x.v
	x.v |= mask
	return old
}
func (x *Uintptr) CompareAndSwap(old, new uintptr) bool {
	y()
	fresh(&x.g, &x.v, true)
	defer y()
	if x.v == old {
		x.v = new
		return true
	}
	return false
}

func LoadUintptr(addr *uintptr) uintptr               { y(); return *addr }
func StoreUintptr(addr *uintptr, val uintptr)         { y(); defer y(); *addr = val }
func AddUintptr(addr *uintptr, delta uintptr) uintptr { y(); *addr += delta; return *addr }
func SwapUintptr(addr *uintptr, new uintptr) uintptr {
	y()
	defer y()
	old := *addr
	*addr = new
	return old
}
func CompareAndSwapUintptr(addr *uintptr, old, new uintptr) bool {
	y()
	defer y()
	if *addr == old {
		*addr = new
		return true
	}
	return false
}

// Bool mirrors atomic.Bool.
type Bool struct {
	v bool
	g guard
}

func (x *Bool) Load() bool     { y(); fresh(&x.g, &x.v, false); return x.v }
func (x *Bool) Store(val bool) { y(); fresh(&x.g, &x.v, true); defer y(); x.v = val }
func (x *Bool) Swap(new bool) bool {
	y()
	fresh(&x.g, &x.v, true)
	defer y()
	old := x.v
	x.v = new
	return old
}
func (x *Bool) CompareAndSwap(old, new bool) bool {
	y()
	fresh(&x.g, &x.v, true)
	defer y()
	if x.v == old {
		x.v = new
		return true
	}
	return false
}

// Pointer mirrors atomic.Pointer[T].
type Pointer[T any] struct {
	p *T
	g guard
}

func (x *Pointer[T]) Load() *T     { y(); fresh(&x.g, &x.p, false); return x.p }
func (x *Pointer[T]) Store(val *T) { y(); fresh(&x.g, &x.p, true); defer y(); x.p = val }
func (x *Pointer[T]) Swap(new *T) *T {
	y()
	fresh(&x.g, &x.p, true)
	defer y()
	old := x.p
	x.p = new
	return old
}
func (x *Pointer[T]) CompareAndSwap(old, new *T) bool {
	y()
	fresh(&x.g, &x.p, true)
	defer y()
	if x.p == old {
		x.p = new
		return true
	}
	return false
}

// Value mirrors atomic.Value.
type Value struct {
	v any
	g guard
}

func (x *Value) Load() any { y(); fresh(&x.g, &x.v, false); return x.v }
func (x *Value) Store(val any) {
	y()
	fresh(&x.g, &x.v, true)
	if val == nil {
		panic("sync/atomic: store of nil value into Value")
	}
	x.v = val
	y()
}
func (x *Value) Swap(new any) any {
	y()
	fresh(&x.g, &x.v, true)
	defer y()
	old := x.v
	x.v = new
	return old
}
func (x *Value) CompareAndSwap(old, new any) bool {
	y()
	fresh(&x.g, &x.v, true)
	defer y()
	if x.v == old {
		x.v = new
		return true
	}
	return false
}
