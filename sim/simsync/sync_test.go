package simsync

import (
	"testing"

	"verifsim/sim/rt"
)

func TestMutexExclusionAndCond(t *testing.T) {
	for seed := uint64(0); seed < 300; seed++ {
		var mu Mutex
		cond := NewCond(&mu)
		inside, maxInside, counter, ready := 0, 0, 0, false
		res := rt.Run(rt.Config{NoProgress: 100000}, rt.NewTape(seed), func() {
			for i := 0; i < 4; i++ {
				rt.Go("w", func() {
					for j := 0; j < 5; j++ {
						mu.Lock()
						inside++
						if inside > maxInside {
							maxInside = inside
						}
						rt.Yield()
						counter++
						inside--
						mu.Unlock()
					}
				})
			}
			rt.Go("waiter", func() {
				mu.Lock()
				for !ready {
					cond.Wait()
				}
				mu.Unlock()
			})
			rt.Go("signaller", func() {
				mu.Lock()
				ready = true
				cond.Broadcast()
				mu.Unlock()
			})
		})
		if res.Outcome != rt.Completed || maxInside != 1 || counter != 20 {
			t.Fatalf("seed %d: outcome %v maxInside %d counter %d %v", seed, res.Outcome, maxInside, counter, res.Blocked)
		}
	}
}

func TestPoolLegalBehaviours(t *testing.T) {
	for seed := uint64(0); seed < 100; seed++ {
		news := 0
		p := &Pool{New: func() any { news++; return new(int) }}
		seen := map[*int]int{}
		rt.Run(rt.Config{}, rt.NewTape(seed), func() {
			var held []*int
			for i := 0; i < 20; i++ {
				x := p.Get().(*int)
				for _, h := range held {
					if h == x {
						t.Fatalf("seed %d: pool returned an item that is still held", seed)
					}
				}
				held = append(held, x)
				seen[x]++
				if i%3 == 2 {
					for _, h := range held {
						p.Put(h)
					}
					held = nil
				}
			}
		})
		if news == 0 || news > 20 {
			t.Fatalf("news=%d", news)
		}
	}
}

func TestWaitGroupOnce(t *testing.T) {
	for seed := uint64(0); seed < 100; seed++ {
		var wg WaitGroup
		var once Once
		n, inits := 0, 0
		res := rt.Run(rt.Config{}, rt.NewTape(seed), func() {
			for i := 0; i < 5; i++ {
				wg.Add(1)
				rt.Go("w", func() {
					defer wg.Done()
					once.Do(func() { inits++ })
					n++
				})
			}
			wg.Wait()
			if n != 5 {
				t.Errorf("seed %d: Wait returned with n=%d", seed, n)
			}
		})
		if res.Outcome != rt.Completed || inits != 1 {
			t.Fatalf("seed %d: %v inits=%d", seed, res.Outcome, inits)
		}
	}
}
