// Package simsync is a drop-in replacement of package sync whose every
// operation is a scheduling point of the simulation kernel. Outside a
// simulated run the types behave like their sequential specification.
package simsync

import (
	"verifsim/sim/rt"
)

// Locker is sync.Locker.
type Locker interface {
	Lock()
	Unlock()
}

// Mutex is a simulated sync.Mutex. Like the real one it is not FIFO: a woken
// waiter competes again, so barging is possible.
type Mutex struct {
	locked  bool
	waiters []*rt.Task
}

// Lock locks m.
func (m *Mutex) Lock() {
	rt.Yield()
	for m.locked {
		if !rt.Active() {
			panic("simsync: Mutex.Lock would block outside a simulated run")
		}
		m.waiters = append(m.waiters, rt.Current())
		rt.Reach("mutex.contended")
		rt.Park("mutex")
	}
	m.locked = true
	held(1)
}

// held keeps the running task's count of held locks (rt.YieldStmt uses it).
func held(d int) {
	if t := rt.Current(); t != nil {
		t.Locks += d
		if t.Locks < 0 {
			t.Locks = 0
		}
	}
}

// TryLock tries to lock m.
func (m *Mutex) TryLock() bool {
	rt.Yield()
	if m.locked {
		return false
	}
	m.locked = true
	held(1)
	return true
}

// Unlock unlocks m.
func (m *Mutex) Unlock() {
	if !m.locked {
		panic("sync: unlock of unlocked mutex")
	}
	m.locked = false
	held(-1)
	if len(m.waiters) > 0 {
		t := m.waiters[0]
		m.waiters = m.waiters[1:]
		rt.Ready(t)
	}
	rt.Yield()
}

// RWMutex is a simulated sync.RWMutex (writer-preferring like the real one).
type RWMutex struct {
	writer   bool
	readers  int
	wwaiting int
	waiters  []*rt.Task
}

func (m *RWMutex) wakeAll() {
	for _, t := range m.waiters {
		rt.Ready(t)
	}
	m.waiters = nil
}

// Lock takes the write lock.
func (m *RWMutex) Lock() {
	rt.Yield()
	m.wwaiting++
	for m.writer || m.readers > 0 {
		m.waiters = append(m.waiters, rt.Current())
		rt.Park("rwmutex.Lock")
	}
	m.wwaiting--
	m.writer = true
	held(1)
}

// Unlock releases the write lock.
func (m *RWMutex) Unlock() {
	if !m.writer {
		panic("sync: Unlock of unlocked RWMutex")
	}
	m.writer = false
	held(-1)
	m.wakeAll()
	rt.Yield()
}

// RLock takes a read lock.
func (m *RWMutex) RLock() {
	rt.Yield()
	for m.writer || m.wwaiting > 0 {
		m.waiters = append(m.waiters, rt.Current())
		rt.Park("rwmutex.RLock")
	}
	m.readers++
	held(1)
}

// RUnlock releases a read lock.
func (m *RWMutex) RUnlock() {
	if m.readers <= 0 {
		panic("sync: RUnlock of unlocked RWMutex")
	}
	m.readers--
	held(-1)
	if m.readers == 0 {
		m.wakeAll()
	}
	rt.Yield()
}

// RLocker returns a Locker for the read side.
func (m *RWMutex) RLocker() Locker { return (*rlocker)(m) }

type rlocker RWMutex

func (r *rlocker) Lock()   { (*RWMutex)(r).RLock() }
func (r *rlocker) Unlock() { (*RWMutex)(r).RUnlock() }

// Cond is a simulated sync.Cond. Waiters are woken in FIFO order like the
// runtime's notify list, and a Wait is registered before the lock is
// released, so no behaviour is produced that the real Cond cannot show.
type Cond struct {
	L       Locker
	waiters []*condWaiter
}

type condWaiter struct {
	t        *rt.Task
	signaled bool
}

// NewCond returns a new Cond.
func NewCond(l Locker) *Cond { return &Cond{L: l} }

// Wait atomically unlocks c.L and suspends the caller; it relocks before
// returning.
func (c *Cond) Wait() {
	w := &condWaiter{t: rt.Current()}
	c.waiters = append(c.waiters, w)
	c.L.Unlock()
	for !w.signaled {
		rt.Park("cond")
	}
	rt.Reach("cond.wakeup")
	c.L.Lock()
}

// Signal wakes the longest waiting task, if any.
func (c *Cond) Signal() {
	rt.Yield()
	if len(c.waiters) > 0 {
		w := c.waiters[0]
		c.waiters = c.waiters[1:]
		w.signaled = true
		rt.Ready(w.t)
	}
}

// Broadcast wakes all waiters.
func (c *Cond) Broadcast() {
	rt.Yield()
	for _, w := range c.waiters {
		w.signaled = true
		rt.Ready(w.t)
	}
	c.waiters = nil
}

// WaitGroup is a simulated sync.WaitGroup.
type WaitGroup struct {
	n       int
	waiters []*rt.Task
}

// Add adds delta to the counter.
func (wg *WaitGroup) Add(delta int) {
	rt.Yield()
	wg.n += delta
	if wg.n < 0 {
		panic("sync: negative WaitGroup counter")
	}
	if wg.n == 0 {
		for _, t := range wg.waiters {
			rt.Ready(t)
		}
		wg.waiters = nil
	}
}

// Done decrements the counter.
func (wg *WaitGroup) Done() { wg.Add(-1) }

// Go runs f in a new task and tracks it.
func (wg *WaitGroup) Go(f func()) {
	wg.Add(1)
	rt.Go("wg.Go", func() {
		defer wg.Done()
		f()
	})
}

// Wait blocks until the counter is zero.
func (wg *WaitGroup) Wait() {
	rt.Yield()
	for wg.n > 0 {
		wg.waiters = append(wg.waiters, rt.Current())
		rt.Park("waitgroup")
	}
}

// Once is a simulated sync.Once.
type Once struct {
	done bool
	m    Mutex
	ep   uint64 // the run in which it was done (0: outside any run - that stays done)
}

// Do calls f once - once per simulated run for a Once that was done during an earlier run (a
// lazily initialised package-level object starts every run as it starts a fresh process).
func (o *Once) Do(f func()) {
	rt.Yield()
	if cur := rt.RunEpoch(); o.done && o.ep != 0 && cur != 0 && o.ep != cur {
		o.done = false
		rt.Reach("once.done-in-an-earlier-run-forgotten")
	}
	if o.done {
		return
	}
	o.m.Lock()
	defer o.m.Unlock()
	if !o.done {
		defer func() { o.done, o.ep = true, rt.RunEpoch() }()
		f()
	}
}

// OnceFunc mirrors sync.OnceFunc.
func OnceFunc(f func()) func() {
	var o Once
	return func() { o.Do(f) }
}

// Pool is a simulated sync.Pool: Get returns, by tape choice, any pooled item
// or a new one; Put may drop the item (what a GC cycle does). Every behaviour
// is a legal behaviour of sync.Pool. Items never survive from one simulated
// run to the next.
type Pool struct {
	New   func() any
	items []any
	epoch uint64
}

func (p *Pool) sync() {
	var e uint64
	if rt.W != nil {
		e = rt.W.Epoch
	}
	if p.epoch != e {
		p.items = nil
		p.epoch = e
	}
}

// Get returns an item.
func (p *Pool) Get() any {
	rt.Yield()
	rt.MaybeGC(3) // only in runs that registered a finalizer or cleanup
	p.sync()
	n := len(p.items)
	if n > 0 {
		// 0 = most recently put (what sync.Pool does on one P), k = k-th most
		// recent, n = miss.
		k := 0
		if rt.Active() {
			k = rt.Biased(rt.SPool, n+1, 1, 3)
		}
		if k < n {
			i := n - 1 - k
			x := p.items[i]
			p.items = append(p.items[:i], p.items[i+1:]...)
			rt.Reach("pool.reuse")
			return x
		}
		rt.Reach("pool.miss-with-items")
	}
	if p.New != nil {
		return p.New()
	}
	return nil
}

// Put adds x to the pool.
func (p *Pool) Put(x any) {
	rt.Yield()
	if x == nil {
		return
	}
	p.sync()
	if rt.Active() && rt.Biased(rt.SPool, 2, 1, 10) == 1 {
		rt.Reach("pool.drop")
		return
	}
	p.items = append(p.items, x)
	rt.Yield() // x is visible to other tasks before the caller's next statement runs
}

// Map is a minimal simulated sync.Map (ordered by insertion for determinism).
type Map struct {
	m    Mutex
	keys []any
	vals map[any]any
}

// Load returns the value for key.
func (m *Map) Load(key any) (any, bool) {
	rt.Yield()
	v, ok := m.vals[key]
	return v, ok
}

// Store sets the value for key.
func (m *Map) Store(key, value any) {
	rt.Yield()
	if m.vals == nil {
		m.vals = map[any]any{}
	}
	if _, ok := m.vals[key]; !ok {
		m.keys = append(m.keys, key)
	}
	m.vals[key] = value
}

// LoadOrStore mirrors sync.Map.LoadOrStore.
func (m *Map) LoadOrStore(key, value any) (any, bool) {
	rt.Yield()
	if v, ok := m.vals[key]; ok {
		return v, true
	}
	if m.vals == nil {
		m.vals = map[any]any{}
	}
	m.keys = append(m.keys, key)
	m.vals[key] = value
	return value, false
}

// Delete removes key.
func (m *Map) Delete(key any) {
	rt.Yield()
	if _, ok := m.vals[key]; ok {
		delete(m.vals, key)
		for i, k := range m.keys {
			if k == key {
				m.keys = append(m.keys[:i], m.keys[i+1:]...)
				break
			}
		}
	}
}

// Range calls f for each entry in insertion order.
func (m *Map) Range(f func(key, value any) bool) {
	rt.Yield()
	keys := append([]any(nil), m.keys...)
	for _, k := range keys {
		if v, ok := m.vals[k]; ok {
			if !f(k, v) {
				return
			}
		}
	}
}
