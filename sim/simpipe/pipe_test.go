package simpipe

import (
	"bytes"
	"errors"
	"fmt"
	"io"
	"sync"
	"testing"

	"verifsim/sim/rt"
)

// script is run once against the real io.Pipe (goroutines) and once against the simulated pipe
// (tasks, many seeds); what the reader and the writer observe must be the same.
type ends struct {
	read       func([]byte) (int, error)
	write      func([]byte) (int, error)
	closeR     func(error) error
	closeW     func(error) error
	goFn       func(string, func())
	wait       func()
	readerSees []string
	writerSees []string
}

var errBoom = errors.New("boom")

func script(e *ends, variant int) {
	e.goFn("writer", func() {
		n, err := e.write([]byte("0123456789"))
		e.writerSees = append(e.writerSees, fmt.Sprintf("write10 n=%d err=%v", n, err))
		n, err = e.write(nil)
		e.writerSees = append(e.writerSees, fmt.Sprintf("write0 n=%d err=%v", n, err))
		n, err = e.write([]byte("abcdef"))
		e.writerSees = append(e.writerSees, fmt.Sprintf("write6 n=%d err=%v", n, err))
		switch variant {
		case 0:
			e.closeW(nil)
		case 1:
			e.closeW(errBoom)
		}
		n, err = e.write([]byte("late"))
		e.writerSees = append(e.writerSees, fmt.Sprintf("late n=%d err=%v", n, err))
	})
	e.goFn("reader", func() {
		buf := make([]byte, 4)
		var all bytes.Buffer
		for i := 0; ; i++ {
			n, err := e.read(buf)
			all.Write(buf[:n])
			e.readerSees = append(e.readerSees, fmt.Sprintf("n=%d err=%v", n, err))
			if err != nil {
				break
			}
			if variant == 2 && all.Len() >= 12 {
				e.closeR(errBoom)
				n, err := e.read(buf)
				e.readerSees = append(e.readerSees, fmt.Sprintf("after close n=%d err=%v", n, err))
				break
			}
		}
		e.readerSees = append(e.readerSees, "got "+all.String())
	})
	e.wait()
}

func realEnds() *ends {
	r, w := io.Pipe()
	var wg sync.WaitGroup
	e := &ends{read: r.Read, write: w.Write, closeR: r.CloseWithError, closeW: w.CloseWithError}
	e.goFn = func(_ string, f func()) { wg.Add(1); go func() { defer wg.Done(); f() }() }
	e.wait = wg.Wait
	return e
}

func TestAgainstIOPipe(t *testing.T) {
	for variant := 0; variant < 3; variant++ {
		ref := realEnds()
		script(ref, variant)
		for seed := uint64(0); seed < 200; seed++ {
			var e *ends
			res := rt.Run(rt.Config{NoProgress: 100000}, rt.NewTape(seed), func() {
				r, w := Pipe()
				if r.real != nil {
					t.Fatal("real pipe inside a run")
				}
				e = &ends{read: r.Read, write: w.Write, closeR: r.CloseWithError, closeW: w.CloseWithError}
				e.goFn = func(name string, f func()) { rt.Go(name, f) }
				e.wait = func() {}
				script(e, variant)
			})
			if res.Outcome != rt.Completed || len(res.Crashed) > 0 {
				t.Fatalf("variant %d seed %d: outcome %v crashed %v blocked %v", variant, seed, res.Outcome, res.Crashed, res.Blocked)
			}
			if fmt.Sprint(e.readerSees) != fmt.Sprint(ref.readerSees) || fmt.Sprint(e.writerSees) != fmt.Sprint(ref.writerSees) {
				t.Fatalf("variant %d seed %d:\nreader sim  %v\nreader real %v\nwriter sim  %v\nwriter real %v", variant, seed, e.readerSees, ref.readerSees, e.writerSees, ref.writerSees)
			}
		}
	}
}

// Outside a run the real pipe is handed out.
func TestOutsideRun(t *testing.T) {
	r, w := Pipe()
	go func() { w.Write([]byte("x")); w.Close() }()
	b, err := io.ReadAll(r)
	if err != nil || string(b) != "x" {
		t.Fatalf("%q %v", b, err)
	}
}
