// Package simpipe is the simulator's io.Pipe: the same synchronous,
// unbuffered rendezvous (a Write blocks until Reads have consumed all of it or
// an end is closed; a Read returns data of one Write only), with the blocking
// done by the kernel, so that the library's in-memory pipes (p2p.Pipe,
// ot.NewPipe) run under the seeded scheduler. The overlay rewriter maps
// io.Pipe, io.PipeReader, io.PipeWriter and io.ErrClosedPipe of the
// repository's sources to this package. Outside a simulated run the real
// io.Pipe is used.
package simpipe

import (
	"io"

	"verifsim/sim/rt"
)

// ErrClosedPipe is io.ErrClosedPipe.
var ErrClosedPipe = io.ErrClosedPipe

type pipe struct {
	wlocked  bool
	wlockers []*rt.Task

	cur   []byte
	has   bool
	nread int
	acked bool

	readers []*rt.Task
	writer  *rt.Task

	rerr, werr error
	done       bool
}

// PipeReader is the read half.
type PipeReader struct {
	p    *pipe
	real *io.PipeReader
}

// PipeWriter is the write half.
type PipeWriter struct {
	p    *pipe
	real *io.PipeWriter
}

// Pipe creates a synchronous in-memory pipe.
func Pipe() (*PipeReader, *PipeWriter) {
	if !rt.Active() {
		r, w := io.Pipe()
		return &PipeReader{real: r}, &PipeWriter{real: w}
	}
	p := &pipe{}
	return &PipeReader{p: p}, &PipeWriter{p: p}
}

func (p *pipe) readCloseError() error {
	if p.rerr == nil && p.werr != nil {
		return p.werr
	}
	return ErrClosedPipe
}

func (p *pipe) writeCloseError() error {
	if p.werr == nil && p.rerr != nil {
		return p.rerr
	}
	return ErrClosedPipe
}

func (p *pipe) wake() {
	for _, t := range p.readers {
		rt.Ready(t)
	}
	p.readers = nil
	if p.writer != nil {
		rt.Ready(p.writer)
		p.writer = nil
	}
}

func (p *pipe) read(b []byte) (int, error) {
	rt.Yield()
	for {
		if p.done {
			return 0, p.readCloseError()
		}
		if p.has {
			nr := copy(b, p.cur)
			p.has, p.nread, p.acked = false, nr, true
			rt.LogBytes('p', b[:nr])
			rt.Progress()
			if p.writer != nil {
				rt.Ready(p.writer)
				p.writer = nil
			}
			return nr, nil
		}
		p.readers = append(p.readers, rt.Current())
		rt.Park("io.Pipe read")
	}
}

func (p *pipe) write(b []byte) (n int, err error) {
	rt.Yield()
	for p.wlocked {
		p.wlockers = append(p.wlockers, rt.Current())
		rt.Park("io.Pipe write (another Write in progress)")
	}
	p.wlocked = true
	defer func() {
		p.wlocked = false
		for _, t := range p.wlockers {
			rt.Ready(t)
		}
		p.wlockers = nil
	}()
	for once := true; once || len(b) > 0; once = false {
		if p.done {
			return n, p.writeCloseError()
		}
		p.cur, p.has, p.acked = b, true, false
		for _, t := range p.readers {
			rt.Ready(t)
		}
		p.readers = nil
		for !p.acked && !p.done {
			p.writer = rt.Current()
			rt.Park("io.Pipe write")
		}
		if !p.acked {
			p.has = false
			return n, p.writeCloseError()
		}
		b = b[p.nread:]
		n += p.nread
	}
	return n, nil
}

func (p *pipe) closeRead(err error) error {
	if err == nil {
		err = ErrClosedPipe
	}
	if p.rerr == nil {
		p.rerr = err
	}
	p.done = true
	p.wake()
	return nil
}

func (p *pipe) closeWrite(err error) error {
	if err == nil {
		err = io.EOF
	}
	if p.werr == nil {
		p.werr = err
	}
	p.done = true
	p.wake()
	return nil
}

// Read implements io.Reader.
func (r *PipeReader) Read(data []byte) (int, error) {
	if r.real != nil {
		return r.real.Read(data)
	}
	return r.p.read(data)
}

// Close closes the reader; subsequent writes return io.ErrClosedPipe.
func (r *PipeReader) Close() error { return r.CloseWithError(nil) }

// CloseWithError closes the reader; subsequent writes return err.
func (r *PipeReader) CloseWithError(err error) error {
	if r.real != nil {
		return r.real.CloseWithError(err)
	}
	if rt.Active() {
		rt.Yield()
	}
	return r.p.closeRead(err)
}

// Write implements io.Writer.
func (w *PipeWriter) Write(data []byte) (int, error) {
	if w.real != nil {
		return w.real.Write(data)
	}
	return w.p.write(data)
}

// Close closes the writer; subsequent reads return io.EOF.
func (w *PipeWriter) Close() error { return w.CloseWithError(nil) }

// CloseWithError closes the writer; subsequent reads return err.
func (w *PipeWriter) CloseWithError(err error) error {
	if w.real != nil {
		return w.real.CloseWithError(err)
	}
	if rt.Active() {
		rt.Yield()
	}
	return w.p.closeWrite(err)
}
