// Package simnet is the simulated transport: reliable ordered byte streams
// with finite buffers, virtual-time latency, tape-chosen read fragmentation
// and a fault plan, plus Listen/Dial/Accept with the TCP semantics the
// repository relies on.
package simnet

import (
	"errors"
	"fmt"
	"io"
	"net"
	"os"
	"time"

	"verifsim/sim/rt"
	"verifsim/sim/simtime"
)

// Fragmentation policies.
const (
	FragWhole  = iota // return everything available
	FragOne           // one byte per Read
	FragMaxK          // at most K bytes per Read
	FragRandom        // tape-chosen 1..min(avail, 64Ki) per Read, biased small
	FragField         // tape-chosen 1..17 per Read (splits every protocol field)
)

// DirConfig configures one direction of a pipe.
type DirConfig struct {
	Cap     int // bytes buffered; 0 = rendezvous (io.Pipe semantics); <0 = unbounded
	Frag    int
	FragK   int
	LatMax  time.Duration // per-write delivery latency: 0 none
	LatRand bool          // uniformly random in [0, LatMax] per write, else fixed
	// EmptyReads > 0: a Read that has data available returns (0, nil) with
	// probability 1/EmptyReads instead, never twice in a row
	EmptyReads int
	// EOFWithData: the Read that delivers the last bytes of a stream whose writer has closed
	// returns them together with io.EOF, as io.Reader allows ("callers should always process the
	// n > 0 bytes returned before considering the error") and HTTP bodies and iotest.DataErrReader
	// do; later Reads return (0, io.EOF)
	EOFWithData bool
	Faults      []Fault
	// StallFor > 0: the byte at stream offset StallOff, and with it everything after it, is
	// delivered StallFor later than it would have been (an outage, a congested link, a peer
	// whose machine is busy): no byte is lost or changed, only time passes.
	StallOff uint64
	StallFor time.Duration
}

// Fault kinds.
const (
	FaultFlip     = iota // xor Mask into the byte at Off
	FaultBurst           // xor a pseudo-random pattern into Len bytes from Off
	FaultClose           // the stream ends cleanly (EOF) after Off bytes; later writes fail
	FaultReset           // like FaultClose but the reader gets an error instead of EOF
	FaultWriteErr        // the Write call covering Off moves nothing and returns ErrWriteTimeout; later writes work
	FaultReadErr         // the first Read issued once Off bytes have been delivered returns (0, ErrReadTimeout); nothing is lost, later reads work
)

// Fault is one entry of a fault plan; Off is a position in the byte stream of
// the direction, so the plan is independent of fragmentation.
type Fault struct {
	Kind int
	Off  uint64
	Mask byte
	Len  int
	Seed uint32
	hit  bool
}

// ErrWriteTimeout is what a transiently failing Write returns.
var ErrWriteTimeout = errors.New("simnet: write timeout (nothing was written)")

// ErrReadTimeout is the transient read error of FaultReadErr.
var ErrReadTimeout = errors.New("simnet: read timeout (nothing was read, nothing is lost)")

// ErrReset is delivered to readers of a reset stream.
var ErrReset = errors.New("simnet: connection reset by peer")

type segment struct {
	data  []byte
	avail time.Duration
}

type stream struct {
	name      string
	cfg       DirConfig
	segs      []segment
	queued    int
	closedW   bool // no more data will arrive
	reset     bool
	closedR   bool // reader went away
	rwait     []*rt.Task
	wwait     []*rt.Task
	written   uint64 // bytes accepted from the writer
	delivered uint64
	lastAvail time.Duration
	rec       []byte
	record    bool
	stats     *Stats
	timerSet  bool
	lastEmpty bool
	rdl, wdl  time.Duration // read / write deadline in virtual time (0 = none)
	stalled   bool
}

// expired parks-with-deadline support: reports whether the deadline dl has
// passed; otherwise arranges for the calling task to be woken when it does.
func expired(dl time.Duration) bool {
	if dl == 0 {
		return false
	}
	if rt.Now() >= dl {
		rt.Reach("net.deadline-exceeded")
		return true
	}
	t := rt.Current()
	rt.After(dl-rt.Now(), func() { rt.Ready(t) })
	return false
}

// Stats counts what actually happened on a pipe (reach probes).
type Stats struct {
	Writes, Reads         int
	Bytes                 uint64
	ShortReads            int // reads that returned less than was available
	OneByteReads          int
	EmptyReads            int
	EOFWithData           int
	WriterBlocked         int
	ReaderBlocked         int
	FaultsFired           map[int]int
	DeliveredBeforeAccept int
}

func wake(ts *[]*rt.Task) {
	for _, t := range *ts {
		rt.Ready(t)
	}
	*ts = nil
}

func (s *stream) applyFaults(b []byte) (out []byte, cut int, reset bool) {
	cut = -1
	start := s.written
	end := start + uint64(len(b))
	copied := false
	for i := range s.cfg.Faults {
		f := &s.cfg.Faults[i]
		switch f.Kind {
		case FaultFlip:
			if f.Off >= start && f.Off < end {
				if !copied {
					b = append([]byte(nil), b...)
					copied = true
				}
				b[f.Off-start] ^= f.Mask
				s.fired(f)
			}
		case FaultBurst:
			fend := f.Off + uint64(f.Len)
			if f.Off < end && fend > start {
				if !copied {
					b = append([]byte(nil), b...)
					copied = true
				}
				for o := f.Off; o < fend; o++ {
					if o >= start && o < end {
						x := uint64(f.Seed)*0x9e3779b97f4a7c15 + o*0xbf58476d1ce4e5b9
						x ^= x >> 29
						m := byte(x>>8) | 1
						b[o-start] ^= m
					}
				}
				s.fired(f)
			}
		case FaultClose, FaultReset:
			if f.Off >= start && f.Off <= end && !f.hit {
				c := int(f.Off - start)
				if cut < 0 || c < cut {
					cut = c
					reset = f.Kind == FaultReset
				}
				s.fired(f)
			}
		}
	}
	return b, cut, reset
}

func (s *stream) fired(f *Fault) {
	if !f.hit {
		f.hit = true
		if s.stats.FaultsFired == nil {
			s.stats.FaultsFired = map[int]int{}
		}
		s.stats.FaultsFired[f.Kind]++
		rt.LogEvent('F', uint64(f.Kind), f.Off)
		rt.Tracef("fault kind=%d off=%d fired on %s", f.Kind, f.Off, s.name)
	}
}

func (s *stream) latency() time.Duration {
	if s.cfg.LatMax <= 0 {
		return 0
	}
	if !s.cfg.LatRand {
		return s.cfg.LatMax
	}
	return time.Duration(rt.Choose(rt.SNet, 9)) * s.cfg.LatMax / 8
}

func (s *stream) write(p []byte) (int, error) {
	rt.Yield()
	if s.closedW {
		return 0, io.ErrClosedPipe
	}
	if s.closedR {
		return 0, io.ErrClosedPipe
	}
	s.stats.Writes++
	for i := range s.cfg.Faults {
		f := &s.cfg.Faults[i]
		if f.Kind == FaultWriteErr && !f.hit && len(p) > 0 && f.Off >= s.written && f.Off < s.written+uint64(len(p)) {
			s.fired(f)
			return 0, ErrWriteTimeout
		}
	}
	data, cut, reset := s.applyFaults(p)
	total := len(p)
	if cut >= 0 {
		data = data[:cut]
	}
	lat := s.latency()
	off := 0
	for off < len(data) {
		if s.closedR {
			return off, io.ErrClosedPipe
		}
		space := len(data) - off
		if s.cfg.Cap > 0 {
			space = s.cfg.Cap - s.queued
			if space > len(data)-off {
				space = len(data) - off
			}
		}
		if space <= 0 {
			if expired(s.wdl) {
				return off, os.ErrDeadlineExceeded
			}
			s.stats.WriterBlocked++
			s.wwait = append(s.wwait, rt.Current())
			rt.Park("pipe write " + s.name)
			continue
		}
		chunk := append([]byte(nil), data[off:off+space]...)
		av := rt.Now() + lat
		if s.cfg.StallFor > 0 && !s.stalled && s.written+uint64(len(chunk)) > s.cfg.StallOff {
			s.stalled = true
			av += s.cfg.StallFor
			rt.Reach("pipe.delivery-stalled")
			if rt.Tracing() {
				rt.Tracef("stall %s: delivery pauses for %v at offset %d", s.name, s.cfg.StallFor, s.cfg.StallOff)
			}
		}
		if av < s.lastAvail {
			av = s.lastAvail
		}
		s.lastAvail = av
		s.segs = append(s.segs, segment{data: chunk, avail: av})
		s.queued += len(chunk)
		s.written += uint64(len(chunk))
		if s.record {
			s.rec = append(s.rec, chunk...)
		}
		rt.LogBytes('w', chunk)
		if rt.Tracing() {
			rt.Tracef("write %s %d bytes (off %d)", s.name, len(chunk), s.written-uint64(len(chunk)))
		}
		off += space
		rt.Progress()
		wake(&s.rwait)
	}
	if cut >= 0 {
		s.closedW = true
		s.reset = reset
		wake(&s.rwait)
		if cut < total {
			return cut, io.ErrClosedPipe
		}
		return total, nil
	}
	if s.cfg.Cap == 0 {
		// rendezvous: return only when the reader has taken everything
		for s.queued > 0 && !s.closedR {
			s.stats.WriterBlocked++
			s.wwait = append(s.wwait, rt.Current())
			rt.Park("pipe write(rendezvous) " + s.name)
		}
		if s.queued > 0 && s.closedR {
			return total - s.queued, io.ErrClosedPipe
		}
	}
	return total, nil
}

func (s *stream) available() int {
	n := 0
	now := rt.Now()
	for _, sg := range s.segs {
		if sg.avail > now {
			break
		}
		n += len(sg.data)
	}
	return n
}

func (s *stream) read(p []byte) (int, error) {
	rt.Yield()
	if len(p) == 0 {
		return 0, nil
	}
	for i := range s.cfg.Faults {
		f := &s.cfg.Faults[i]
		if f.Kind == FaultReadErr && !f.hit && s.delivered >= f.Off {
			s.fired(f)
			rt.LogEvent('r', 0, s.delivered)
			return 0, ErrReadTimeout
		}
	}
	for {
		if s.closedR {
			return 0, io.ErrClosedPipe
		}
		av := s.available()
		if av > 0 && s.cfg.EmptyReads > 0 && !s.lastEmpty && rt.Choose(rt.SNet, s.cfg.EmptyReads) == 0 {
			// a legal io.Reader may return 0, nil once in a while (never twice in a row here)
			s.lastEmpty = true
			s.stats.EmptyReads++
			rt.LogEvent('r', 0, s.delivered)
			return 0, nil
		}
		s.lastEmpty = false
		if av > 0 {
			max := av
			if max > len(p) {
				max = len(p)
			}
			k := max
			switch s.cfg.Frag {
			case FragOne:
				k = 1
			case FragMaxK:
				if s.cfg.FragK > 0 && k > s.cfg.FragK {
					k = s.cfg.FragK
				}
			case FragRandom:
				if max > 1 {
					switch rt.Choose(rt.SNet, 4) {
					case 0:
						k = max
					case 1:
						k = 1 + rt.Choose(rt.SNet, min(max, 16))
					case 2:
						k = 1 + rt.Choose(rt.SNet, min(max, 65536))
					case 3:
						k = 1
					}
				}
			case FragField:
				if max > 1 {
					k = 1 + rt.Choose(rt.SNet, min(max, 17))
				}
			}
			if k < max {
				s.stats.ShortReads++
			}
			if k == 1 && max > 1 {
				s.stats.OneByteReads++
			}
			n := 0
			for n < k {
				sg := &s.segs[0]
				c := copy(p[n:k], sg.data)
				n += c
				if c == len(sg.data) {
					s.segs[0].data = nil
					s.segs = s.segs[1:]
				} else {
					sg.data = sg.data[c:]
				}
			}
			s.queued -= n
			s.delivered += uint64(n)
			s.stats.Reads++
			s.stats.Bytes += uint64(n)
			rt.Progress()
			rt.LogEvent('r', uint64(n), s.delivered)
			if rt.Tracing() {
				rt.Tracef("read %s %d of %d available", s.name, n, av)
			}
			wake(&s.wwait)
			if s.cfg.EOFWithData && s.closedW && !s.reset && len(s.segs) == 0 {
				s.stats.EOFWithData++
				return n, io.EOF
			}
			return n, nil
		}
		if expired(s.rdl) {
			return 0, os.ErrDeadlineExceeded
		}
		if len(s.segs) > 0 {
			// data in flight: wait for virtual time
			t := rt.Current()
			d := s.segs[0].avail - rt.Now()
			rt.After(d, func() { rt.Ready(t) })
			s.stats.ReaderBlocked++
			rt.Park("pipe read(in flight) " + s.name)
			continue
		}
		if s.closedW {
			if s.reset {
				return 0, ErrReset
			}
			return 0, io.EOF
		}
		s.stats.ReaderBlocked++
		s.rwait = append(s.rwait, rt.Current())
		rt.Park("pipe read " + s.name)
	}
}

// Endpoint is one end of a simulated connection; it implements net.Conn.
type Endpoint struct {
	Name    string
	in      *stream
	out     *stream
	closed  bool
	linger0 bool
	Stats   *Stats
	local   string
	remote  string
}

// PipeConfig configures both directions: AB is written by the first endpoint.
type PipeConfig struct {
	AB, BA DirConfig
	Record bool
}

// Pipe creates a connected pair of endpoints.
func Pipe(nameA, nameB string, cfg PipeConfig) (*Endpoint, *Endpoint) {
	st := &Stats{}
	ab := &stream{name: nameA + ">" + nameB, cfg: cfg.AB, record: cfg.Record, stats: st}
	ba := &stream{name: nameB + ">" + nameA, cfg: cfg.BA, record: cfg.Record, stats: st}
	a := &Endpoint{Name: nameA, in: ba, out: ab, Stats: st, local: nameA, remote: nameB}
	b := &Endpoint{Name: nameB, in: ab, out: ba, Stats: st, local: nameB, remote: nameA}
	return a, b
}

// Read implements io.Reader.
func (e *Endpoint) Read(p []byte) (int, error) {
	if e.closed {
		rt.Yield()
		return 0, net.ErrClosed
	}
	return e.in.read(p)
}

// Write implements io.Writer; it never returns short without an error.
func (e *Endpoint) Write(p []byte) (int, error) {
	if e.closed {
		rt.Yield()
		return 0, net.ErrClosed
	}
	return e.out.write(p)
}

// Close closes both directions at this end: the peer reads EOF after the
// data already written, and its writes fail. After SetLinger(0) it is an abortive close: what
// the peer has not read yet is discarded and the peer gets a reset (what TCP does with the send
// queue, and on most systems with the peer's unread receive queue, when it sends RST).
func (e *Endpoint) Close() error {
	rt.Yield()
	if e.closed {
		return net.ErrClosed
	}
	if e.linger0 && e.out.queued > 0 {
		rt.Reach("net.abortive-close-discarded-unread-data")
		e.out.segs, e.out.queued = nil, 0
		e.out.reset = true
	}
	e.Abort()
	return nil
}

// SetLinger implements (*net.TCPConn).SetLinger: 0 makes Close abortive.
func (e *Endpoint) SetLinger(sec int) error { e.linger0 = sec == 0; return nil }

// SetNoDelay, SetKeepAlive, SetKeepAlivePeriod, SetReadBuffer, SetWriteBuffer implement the
// corresponding (*net.TCPConn) methods; they do not change what the simulated socket delivers.
func (e *Endpoint) SetNoDelay(bool) error                  { return nil }
func (e *Endpoint) SetKeepAlive(bool) error                { return nil }
func (e *Endpoint) SetKeepAlivePeriod(time.Duration) error { return nil }
func (e *Endpoint) SetReadBuffer(int) error                { return nil }
func (e *Endpoint) SetWriteBuffer(int) error               { return nil }

// CloseWrite implements (*net.TCPConn).CloseWrite: the peer reads EOF after what was written.
func (e *Endpoint) CloseWrite() error {
	rt.Yield()
	e.out.closedW = true
	wake(&e.out.rwait)
	return nil
}

// Abort closes the endpoint without a scheduling point (kernel context, used
// when a party crashes).
func (e *Endpoint) Abort() {
	if e.closed {
		return
	}
	e.closed = true
	rt.Progress()
	e.out.closedW = true
	e.in.closedR = true
	wake(&e.out.rwait)
	wake(&e.out.wwait)
	wake(&e.in.wwait)
	wake(&e.in.rwait)
	if rt.Tracing() {
		rt.Tracef("close endpoint %s", e.Name)
	}
}

// Sent returns every byte this endpoint has written so far (if recording).
func (e *Endpoint) Sent() []byte { return e.out.rec }

// SentCount returns the number of bytes accepted from this endpoint's writer.
func (e *Endpoint) SentCount() uint64 { return e.out.written }

// ReceivedCount returns the number of bytes delivered to this endpoint's reader.
func (e *Endpoint) ReceivedCount() uint64 { return e.in.delivered }

// Pending returns the bytes written towards this endpoint and not yet read.
func (e *Endpoint) Pending() int { return e.in.queued }

type addr string

func (a addr) Network() string { return "sim" }
func (a addr) String() string  { return string(a) }

// LocalAddr implements net.Conn.
func (e *Endpoint) LocalAddr() net.Addr { return addr(e.local) }

// RemoteAddr implements net.Conn.
func (e *Endpoint) RemoteAddr() net.Addr { return addr(e.remote) }

func virtualDeadline(t time.Time) time.Duration {
	if t.IsZero() {
		return 0
	}
	d := simtime.Virtual(t)
	if d <= 0 {
		d = 1 // already in the past
	}
	return d
}

// SetDeadline implements net.Conn on the virtual clock: a blocked Read or Write
// returns os.ErrDeadlineExceeded once the deadline has passed.
func (e *Endpoint) SetDeadline(t time.Time) error {
	e.SetReadDeadline(t)
	return e.SetWriteDeadline(t)
}

// SetReadDeadline implements net.Conn.
func (e *Endpoint) SetReadDeadline(t time.Time) error {
	e.in.rdl = virtualDeadline(t)
	wake(&e.in.rwait)
	return nil
}

// SetWriteDeadline implements net.Conn.
func (e *Endpoint) SetWriteDeadline(t time.Time) error {
	e.out.wdl = virtualDeadline(t)
	wake(&e.out.wwait)
	return nil
}

func (e *Endpoint) String() string { return fmt.Sprintf("sim(%s->%s)", e.local, e.remote) }
