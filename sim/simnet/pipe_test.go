package simnet

import (
	"bytes"
	"io"
	"testing"
	"time"

	"verifsim/sim/rt"
)

func TestPipeReliableOrdered(t *testing.T) {
	caps := []int{0, 1, 16, 4096, -1}
	for seed := uint64(0); seed < 300; seed++ {
		cfg := DirConfig{Cap: caps[seed%5], Frag: int(seed/5) % 5, FragK: 7}
		if seed%3 == 0 {
			cfg.LatMax, cfg.LatRand = 5*time.Millisecond, seed%2 == 0
		}
		want := make([]byte, 3000+int(seed))
		for i := range want {
			want[i] = byte(i*7 + int(seed))
		}
		var got []byte
		var rerr error
		a, b := Pipe("a", "b", PipeConfig{AB: cfg, BA: cfg, Record: true})
		res := rt.Run(rt.Config{NoProgress: 1000000}, rt.NewTape(seed), func() {
			rt.Go("w", func() {
				for off := 0; off < len(want); {
					n := 1 + (off*13+int(seed))%500
					if off+n > len(want) {
						n = len(want) - off
					}
					if k, err := a.Write(want[off : off+n]); err != nil || k != n {
						t.Errorf("seed %d: write %d %v", seed, k, err)
					}
					off += n
				}
				a.Close()
			})
			rt.Go("r", func() {
				got, rerr = io.ReadAll(b)
			})
		})
		if res.Outcome != rt.Completed || rerr != nil || !bytes.Equal(got, want) || !bytes.Equal(a.Sent(), want) {
			t.Fatalf("seed %d cfg %+v: outcome %v err %v got %d want %d", seed, cfg, res.Outcome, rerr, len(got), len(want))
		}
	}
}

func TestFaultsLandAtStreamOffsets(t *testing.T) {
	cfg := DirConfig{Cap: 64, Frag: FragRandom, Faults: []Fault{{Kind: FaultFlip, Off: 100, Mask: 0xff}, {Kind: FaultClose, Off: 250}}}
	a, b := Pipe("a", "b", PipeConfig{AB: cfg, BA: DirConfig{Cap: 64}})
	var got []byte
	var werr error
	rt.Run(rt.Config{}, rt.NewTape(5), func() {
		rt.Go("w", func() {
			buf := make([]byte, 300)
			_, werr = a.Write(buf)
		})
		rt.Go("r", func() { got, _ = io.ReadAll(b) })
	})
	if len(got) != 250 || got[100] != 0xff || got[99] != 0 || werr == nil {
		t.Fatalf("got %d bytes, byte100=%x, werr=%v", len(got), got[100], werr)
	}
}

func TestDialBeforeAcceptAndRefused(t *testing.T) {
	Reset()
	var refused, accepted bool
	var data []byte
	res := rt.Run(rt.Config{}, rt.NewTape(1), func() {
		Reset()
		if _, err := Dial("tcp", "nobody:1"); err != nil {
			refused = true
		}
		l, _ := Listen("tcp", "srv:1")
		c, err := Dial("tcp", "srv:1") // succeeds before Accept (backlog)
		if err != nil {
			t.Errorf("dial: %v", err)
			return
		}
		c.Write([]byte("hello"))
		rt.Go("acceptor", func() {
			s, err := l.Accept()
			if err == nil {
				accepted = true
				buf := make([]byte, 5)
				io.ReadFull(s, buf)
				data = buf
			}
		})
	})
	if res.Outcome != rt.Completed || !refused || !accepted || string(data) != "hello" {
		t.Fatalf("outcome %v refused %v accepted %v data %q", res.Outcome, refused, accepted, data)
	}
}
