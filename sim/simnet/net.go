package simnet

import (
	"fmt"
	"net"
	"time"

	"verifsim/sim/rt"
)

// Aliases so that rewritten code that says net.X keeps compiling.
type (
	Conn     = net.Conn
	Listener = net.Listener
	Addr     = net.Addr
	Error    = net.Error
	OpError  = net.OpError
	TCPConn  = Endpoint // conn.(*net.TCPConn) in the code under test names the simulated socket
	TCPAddr  = net.TCPAddr
	IP       = net.IP
)

// Re-exported helpers.
var (
	ErrClosed     = net.ErrClosed
	JoinHostPort  = net.JoinHostPort
	SplitHostPort = net.SplitHostPort
	ParseIP       = net.ParseIP
)

// Net is the per-run state of the simulated network.
type Net struct {
	epoch     uint64
	listeners map[string]*listener
	// NewPipeConfig is asked for the configuration of each new connection.
	NewPipeConfig func(from, to string) PipeConfig
	// DialLatency is the virtual time a connection attempt takes.
	DialLatency func(from, to string) time.Duration
	Conns       []*ConnRecord
	Refused     int
	// AcceptReorder > 0: when several connections wait in a listener's queue, one Accept in so many
	// hands out a tape-chosen one of them instead of the oldest (TCP queues a connection when its
	// handshake completes: one whose last handshake segment was lost and sent again is queued
	// behind connections dialled after it). Reordered counts how often that happened.
	AcceptReorder int
	Reordered     int
}

// ConnRecord remembers every connection ever opened in the run.
type ConnRecord struct {
	From, To          string
	Client, Server    *Endpoint
	Accepted          bool
	BytesBeforeAccept int
}

var cur = &Net{}

// Reset installs a fresh network for the current run and returns it.
func Reset() *Net {
	cur = &Net{listeners: map[string]*listener{}}
	if rt.W != nil {
		cur.epoch = rt.W.Epoch
	}
	return cur
}

// Current returns the network of the current run.
func Current() *Net { return cur }

type listener struct {
	addr    string
	backlog []*ConnRecord
	closed  bool
	waiters []*rt.Task
	n       *Net
}

// norm maps the spellings of one endpoint to one key: an empty host, 0.0.0.0, localhost and the
// loopback addresses all mean "this host" (hosts with names of their own are machines of their
// own), as they do for net.Listen and net.Dial.
func norm(address string) string {
	host, port, err := net.SplitHostPort(address)
	if err != nil {
		return address
	}
	switch host {
	case "", "0.0.0.0", "::", "localhost", "127.0.0.1", "::1":
		return ":" + port
	}
	return address
}

// Listen is net.Listen.
func Listen(network, address string) (net.Listener, error) {
	rt.Yield()
	address = norm(address)
	n := cur
	if n.listeners == nil {
		n.listeners = map[string]*listener{}
	}
	if l, ok := n.listeners[address]; ok && !l.closed {
		return nil, fmt.Errorf("listen %s %s: bind: address already in use", network, address)
	}
	l := &listener{addr: address, n: n}
	n.listeners[address] = l
	rt.Tracef("listen %s", address)
	return l, nil
}

func (l *listener) Accept() (net.Conn, error) {
	rt.Yield()
	for {
		if l.closed {
			return nil, &net.OpError{Op: "accept", Net: "sim", Err: net.ErrClosed}
		}
		if len(l.backlog) > 0 {
			pick := 0
			if l.n.AcceptReorder > 0 && len(l.backlog) > 1 && rt.Choose(rt.SNet, l.n.AcceptReorder) == 0 {
				pick = 1 + rt.Choose(rt.SNet, len(l.backlog)-1)
				l.n.Reordered++
				rt.Reach("net.accept-queue-reordered")
			}
			c := l.backlog[pick]
			l.backlog = append(l.backlog[:pick:pick], l.backlog[pick+1:]...)
			c.Accepted = true
			rt.Progress()
			c.BytesBeforeAccept = c.Server.Pending()
			if c.BytesBeforeAccept > 0 {
				rt.Reach("net.data-before-accept")
			}
			if len(l.backlog) > 0 {
				rt.Reach("net.backlog>1")
			}
			rt.LogEvent('A', uint64(len(l.n.Conns)), 0)
			rt.Tracef("accept on %s from %s", l.addr, c.From)
			return c.Server, nil
		}
		l.waiters = append(l.waiters, rt.Current())
		rt.Park("accept " + l.addr)
	}
}

func (l *listener) Close() error {
	rt.Yield()
	if l.closed {
		return net.ErrClosed
	}
	l.closed = true
	wake(&l.waiters)
	// connections never accepted are reset
	for _, c := range l.backlog {
		c.Server.Abort()
	}
	l.backlog = nil
	return nil
}

func (l *listener) Addr() net.Addr { return addr(l.addr) }

// Dial is net.Dial: it succeeds as soon as a listener exists on address,
// before the application accepts (backlog).
func Dial(network, address string) (net.Conn, error) {
	rt.Yield()
	n := cur
	from := ""
	if t := rt.Current(); t != nil {
		from = t.Party
	}
	if n.DialLatency != nil {
		if d := n.DialLatency(from, address); d > 0 {
			rt.Sleep(d)
		}
	}
	address = norm(address)
	l := n.listeners[address]
	if l == nil || l.closed {
		n.Refused++
		rt.Reach("net.refused")
		rt.Tracef("dial %s refused", address)
		return nil, &net.OpError{Op: "dial", Net: network, Err: fmt.Errorf("connect: connection refused (%s)", address)}
	}
	cfg := PipeConfig{AB: DirConfig{Cap: 64 * 1024}, BA: DirConfig{Cap: 64 * 1024}}
	if n.NewPipeConfig != nil {
		cfg = n.NewPipeConfig(from, address)
	}
	id := len(n.Conns)
	a, b := Pipe(fmt.Sprintf("%s.c%d", from, id), fmt.Sprintf("%s.s%d", address, id), cfg)
	rec := &ConnRecord{From: from, To: address, Client: a, Server: b}
	n.Conns = append(n.Conns, rec)
	l.backlog = append(l.backlog, rec)
	rt.Progress()
	wake(&l.waiters)
	rt.LogEvent('D', uint64(id), 0)
	rt.Tracef("dial %s -> %s connected (conn %d)", from, address, id)
	return a, nil
}
