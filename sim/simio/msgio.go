// Package simio is a message-level implementation of ot.IO under the
// simulation kernel: typed messages, unbounded queues, blocking receives,
// an optional tamper hook per direction. It exercises the ot.IO interface
// without p2p.Conn.
package simio

import (
	"errors"
	"fmt"
	"time"

	"github.com/markkurossi/mpc/ot"

	"verifsim/sim/rt"
)

// Message kinds.
const (
	KByte = iota
	KUint32
	KData
	KLabel
)

// Msg is one typed message in flight.
type Msg struct {
	Kind int
	B    byte
	U    int
	Data []byte
	L    ot.Label
}

// End is one endpoint; it implements ot.IO.
type End struct {
	Name    string
	inbox   []Msg
	peer    *End
	waiters []*rt.Task
	closed  bool
	// Tamper, if set, sees every message this endpoint sends (index counts
	// the messages of this direction) and may modify it.
	Tamper func(idx int, m *Msg)
	SentN  int
	// SlowSend > 0: SendData consumes its argument late - it is a scheduling point before the
	// payload is read, and one call in SlowSend first blocks for a millisecond of virtual time (a
	// transport with back-pressure). The caller's buffer belongs to SendData until it returns.
	SlowSend int
}

// ErrClosed is returned when the peer is gone.
var ErrClosed = errors.New("simio: peer closed")

var _ ot.IO = &End{}

// Pair creates two connected endpoints.
func Pair(a, b string) (*End, *End) {
	x := &End{Name: a}
	y := &End{Name: b}
	x.peer, y.peer = y, x
	return x, y
}

func (e *End) send(m Msg) error {
	rt.Yield()
	if e.closed || e.peer.closed {
		return ErrClosed
	}
	if e.Tamper != nil {
		e.Tamper(e.SentN, &m)
	}
	e.SentN++
	p := e.peer
	p.inbox = append(p.inbox, m)
	rt.Progress()
	switch m.Kind {
	case KData:
		rt.LogBytes('m', m.Data)
	case KLabel:
		rt.LogEvent('l', m.L.D0, m.L.D1)
	default:
		rt.LogEvent('u', uint64(m.U), uint64(m.B))
	}
	for _, t := range p.waiters {
		rt.Ready(t)
	}
	p.waiters = nil
	return nil
}

func (e *End) recv(kind int) (Msg, error) {
	rt.Yield()
	for len(e.inbox) == 0 {
		if e.closed || e.peer.closed {
			return Msg{}, ErrClosed
		}
		e.waiters = append(e.waiters, rt.Current())
		rt.Park("simio receive " + e.Name)
	}
	m := e.inbox[0]
	e.inbox = e.inbox[1:]
	rt.Progress()
	if m.Kind != kind {
		return Msg{}, fmt.Errorf("simio: protocol desynchronised: %s expected message kind %d, got kind %d", e.Name, kind, m.Kind)
	}
	return m, nil
}

// Close closes the endpoint.
func (e *End) Close() {
	e.closed = true
	for _, t := range e.peer.waiters {
		rt.Ready(t)
	}
	e.peer.waiters = nil
}

// SendByte implements ot.IO.
func (e *End) SendByte(val byte) error { return e.send(Msg{Kind: KByte, B: val}) }

// SendUint32 implements ot.IO.
func (e *End) SendUint32(val int) error { return e.send(Msg{Kind: KUint32, U: int(uint32(val))}) }

// SendData implements ot.IO.
func (e *End) SendData(val []byte) error {
	if e.SlowSend > 0 && rt.Active() {
		rt.Yield()
		if rt.Choose(rt.SFault, e.SlowSend) == 0 {
			rt.Reach("ot-io.send-blocked-before-consuming-payload")
			rt.Sleep(time.Millisecond)
		}
	}
	return e.send(Msg{Kind: KData, Data: append([]byte(nil), val...)})
}

// SendLabel implements ot.IO.
func (e *End) SendLabel(val ot.Label, data *ot.LabelData) error {
	return e.send(Msg{Kind: KLabel, L: val})
}

// Flush implements ot.IO.
func (e *End) Flush() error { rt.Yield(); return nil }

// ReceiveByte implements ot.IO.
func (e *End) ReceiveByte() (byte, error) {
	m, err := e.recv(KByte)
	return m.B, err
}

// ReceiveUint32 implements ot.IO.
func (e *End) ReceiveUint32() (int, error) {
	m, err := e.recv(KUint32)
	return m.U, err
}

// ReceiveData implements ot.IO.
func (e *End) ReceiveData() ([]byte, error) {
	m, err := e.recv(KData)
	return m.Data, err
}

// ReceiveLabel implements ot.IO.
func (e *End) ReceiveLabel(val *ot.Label, data *ot.LabelData) error {
	m, err := e.recv(KLabel)
	if err != nil {
		return err
	}
	*val = m.L
	return nil
}

// ClearOT is a stub base OT that transfers both labels in the clear and lets
// the receiver pick. It is used where the base OT is not what a run examines
// (most IKNP runs); a share of runs keeps real Chou-Orlandi.
type ClearOT struct{ io ot.IO }

// InitSender implements ot.OT.
func (c *ClearOT) InitSender(io ot.IO) error { c.io = io; return nil }

// InitReceiver implements ot.OT.
func (c *ClearOT) InitReceiver(io ot.IO) error { c.io = io; return nil }

// Send implements ot.OT.
func (c *ClearOT) Send(wires []ot.Wire) error {
	var ld ot.LabelData
	for _, w := range wires {
		if err := c.io.SendLabel(w.L0, &ld); err != nil {
			return err
		}
		if err := c.io.SendLabel(w.L1, &ld); err != nil {
			return err
		}
	}
	return c.io.Flush()
}

// Receive implements ot.OT.
func (c *ClearOT) Receive(flags []bool, result []ot.Label) error {
	var ld ot.LabelData
	var l0, l1 ot.Label
	for i, f := range flags {
		if err := c.io.ReceiveLabel(&l0, &ld); err != nil {
			return err
		}
		if err := c.io.ReceiveLabel(&l1, &ld); err != nil {
			return err
		}
		if f {
			result[i] = l1
		} else {
			result[i] = l0
		}
	}
	return nil
}
