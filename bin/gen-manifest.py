#!/usr/bin/env python3
"""Regenerates /verif/MANIFEST.json from the table below (kept next to the checks so both change together)."""
import json, subprocess, os
V = os.path.dirname(os.path.dirname(os.path.abspath(__file__)))
GO = "/root/go/pkg/mod/golang.org/toolchain@v0.0.1-go1.25.0.linux-amd64/bin/go"
TECH = "deterministic simulation with fault injection: "
checks = {
 "C17": ("exploration", "seeded search over interleavings of 2..6 tasks garbling, evaluating, computing and releasing on one shared circuit, with scheduling points at the lazy pool creation, every pool operation (simulated pool: any pooled scratch, a new one, or dropped items) and the loop heads inside Garble/Eval/Compute; oracle = truth table, held garblings unchanged, bit-identity with the same calls run alone; data-race freedom by a companion pass of the same operation lists on real goroutines under the Go race detector", "5 C17", "a serialising scheduler cannot observe data races, so that clause rests on the race-detector companion (happens-before based, not replayable); trusts the simulated sync.Pool/atomic models", TECH + "seeded interleaving search with yields inside Garble/Eval + race-detector companion on identical operation lists"),
 "C08": ("exploration", "seeded search over programs (multi-import crafted, testsuite, examples, generated), parameter sets, map iteration orders of every map range in the compile path (owned by the simulator in build variant c08), compilation histories, reused and fresh compiler and Params values, and a separate worker process; oracle = byte identity of circuit, Bristol text, SSA listing and I/O description across the jobs", "5 C08", "trusts the map-range rewrite (a refinement of the orders the Go specification allows); nondeterminism outside map iteration and compilation history (there is no goroutine in the compiler) is covered only by the separate-process jobs", TECH + "simulator-owned map iteration order and compilation histories, byte-identity oracle across jobs and processes"),
 "C14": ("fault_enumeration", "round trips of generated circuits with rich I/O signatures through a simulated disk and short-reading readers, and dense windows of truncation lengths and bit flips plus extension, splice and boundary-value faults on valid files of both formats, each parse judged under the property's precondition; positions are enumerated in windows per seed, not exhaustively per file", "5 C14", "trusts the simulated disk/reader model and the harness's own scan of the file layouts for the declared-size precondition; the 20 s hang clause is the only wall-clock verdict", TECH + "stored-byte fault enumeration on a simulated disk with short reads, well-formedness oracle"),
 "C04": ("exploration", "transcript monitor over real whole-circuit sessions, streaming sessions and sha2pc round messages: every 16-byte window at every byte offset of the complete garbler->evaluator stream is compared against the offset R, learned from the wires handed to the OT layer or by differential replay of the identical run; sampled over circuits, programs, inputs and randomness", "5 C04", "sound only for labels that behave like random 128-bit strings (seeded AES-CTR DRBG; accidental hit chance about |W|^2/2^128); the sha2pc OutputHints leak is a listed known finding, matched by its exact location", TECH + "recorded transcripts of simulated sessions + differential replay, window-set monitor"),
 "C18": ("fault_enumeration", "crash/restart at any subset of the five round boundaries of two simulated processes with only the simulated disk surviving, session and curve mixing, and mutations of all five encodings followed through the next round; oracle = crypto/sha256, encode/decode identity, fixed sizes across sessions, rejection of foreign pieces, no panic", "5 C18", "trusts simulated disk/pipe/process model; restart subsets and mutations are sampled per seed (32 subsets, uniformly)", TECH + "crash/restart enumeration over simulated processes and disk, message-mutation faults"),
 "C10": ("exploration", "seeded search over party counts, circuits (generated and compiled for the GMW target), inputs, harness triple requests, start delays, dial latencies, transports and every interleaving of the main, accept, triple-producer and writer tasks; oracle = truth-table evaluation and the triple relation bit for bit", "5 C10", "trusts the simulated TCP, sync and channel models; real Chou-Orlandi base OTs (constructed by the code under test)", TECH + "seeded multi-party sessions over simulated TCP, truth-table and triple-relation oracles"),
 "C05": ("exploration", "seeded search over corpus and generated MPCL programs (aliasing chains, array updates, unsized arguments, >65535 wires), inputs, OT kinds, transports and schedules of real streaming sessions; differential oracle against the whole compiled circuit evaluated by the harness truth-table evaluator", "5 C05", "trusts simulator models + overlay rewriter; the reference is the repository's own whole-circuit compilation of the same source; programs that do not compile are discarded", TECH + "seeded streaming sessions over simulated transport, differential oracle against whole-circuit evaluation"),
 "C02": ("exploration", "seeded search over circuits, inputs, OT implementations, pipe capacities, read fragmentations and task schedules of real Garbler/Evaluator sessions; oracle = harness truth-table evaluator; sampled, not exhaustive", "5 C02", "trusts simulator models + overlay rewriter; fault-free transport (the property's domain)", TECH + "seeded schedule/fragmentation search of two-party sessions against a truth-table reference"),
 "C06": ("exploration", "seeded search over every OT implementation, batch sizes across all internal boundaries, repeated batches, shared instances, transports and schedules; oracle = exact label/bit equality", "5 C06", "trusts simulator models + overlay rewriter; IKNP base OTs are a stub in most runs (real Chou-Orlandi in a share)", TECH + "seeded sender/receiver sessions over simulated transport, exact-equality oracle"),
 "C11": ("exploration", "seeded search over operation sequences, flush placements, buffer capacities, read fragmentations and task schedules of two real p2p.Conn on a simulated pipe, against a FIFO reference model; sampled, not exhaustive", "5 C11", "trusts the simulator's channel/pipe models and the overlay rewriter; fault-free transport only (the property's domain)", TECH + "seeded schedule/fragmentation search, FIFO reference-model oracle"),
 "C15": ("fault_enumeration", "tampering plans (single/multiple bit flips at (column,row) of the payload and check matrices, alterations of the challenge response) injected into the receiver->sender messages of real malicious-mode IKNP sessions; oracle = honest never aborts, acceptance implies intact correlation; positions sampled per seed (dense for n in {1,8,9,64})", "5 C15", "trusts the message-level ot.IO model; base OTs stubbed in most runs", TECH + "message tampering at a simulated ot.IO seam, correlation oracle"),
 "C16": ("fault_enumeration", "byte corruptions (bit/byte flips, bursts, 1..4 per session) at head-, tail- and uniformly-chosen offsets of both directions of real whole-circuit and streaming sessions, each compared with a clean reference session of identical randomness; the garbler must error, stall or be correct", "5 C16", "trusts simulator models; a refused giant allocation (allocator seam) or a worker killed by the address-space limit counts as an aborted session", TECH + "in-transit corruption plans on a simulated pipe, outcome-set oracle"),
 "C19": ("exploration", "seeded search over party counts, connections per pair, start delays, dial latencies and every interleaving decision of the parties' accept/connect/writer tasks at lock, condition, channel and socket operations; oracle = completeness at the moment Connect returns, token exchange on every connection, connection count", "5 C19", "trusts the simulated TCP model (backlog, dial succeeds before accept) and the sync/cond models", TECH + "seeded schedule/timing search of mesh setup over simulated TCP"),
 "C20": ("exploration", "seeded search over vector lengths across chunk boundaries, moduli, boundary field elements, repeated Mul calls, all (a,b) and label values, transports and schedules; oracle = math/big recombination", "5 C20", "trusts simulator models; IKNP base OTs stubbed in most runs", TECH + "seeded two-task sessions over simulated transport, big-integer reference oracle"),
}
na = [
 ("C01", "pure single-goroutine function of (circuit, inputs, key, random bytes): no schedule, transport, storage or fault can change it; its relation is asserted inside every simulated session of C02/C05/C16/C17/C18"),
 ("C03", "compile-then-evaluate is a pure function of (source, inputs); needs an MPCL reference interpreter, not a simulator"),
 ("C07", "circuit builders are pure functions of (widths, operand values)"),
 ("C09", "pure function of (source, params, inputs); no nondeterminism or fault surface"),
 ("C12", "constant folding is a pure function of (expression, values)"),
 ("C13", "value encoding/decoding are pure sequential functions of (type, value)"),
]
fix_commits = []
try:
    out = subprocess.run(["git", "-C", "/repo", "log", "--format=%h %s"], capture_output=True, text=True).stdout
    fix_commits = [l.split()[0] for l in out.splitlines() if l.split(" ", 1)[1].startswith("fix:")]
except Exception:
    pass
m = {
 "version": 1,
 "setup_cmd": f"cd /verif && GOFLAGS=-mod=mod GOPROXY=off GOSUMDB=off GOTOOLCHAIN=local {GO} build -o bin/verifsim ./cmd/verifsim",
 "hooks": {
  "guard": "verifsim-overlay (no in-tree guard: the checks rewrite the working tree into a go build -overlay; /repo carries no hook code)",
  "enable": "bin/check runs the overlay rewriter (/verif/rewrite) over /repo's working tree and builds /verif/cmd/simworker with go build -overlay",
  "baseline_off_cmd": "cd /repo && go test -mod=mod -vet=off -count=1 -timeout 25m ./...",
  "source_commits": [],
  "add_only": True,
 },
 "engines": [{"name": "verifsim", "path": "/verif", "serves_properties": sorted(checks), "kind_free_text": "deterministic simulation kernel (one task at a time, tape-driven scheduler, simulated sync/chan/net/rand/alloc/disk seams) + overlay rewriter + seeded search, shrinking and fresh-process replay"}],
 "checks": [],
 "not_applicable": [{"property_id": i, "reason": r} for i, r in na],
 "notes": "fix: commits in /repo (genuine defects, unguarded): " + ", ".join(fix_commits) + ". See DESIGN.md and known_findings.json.",
}
for pid in sorted(checks):
    lvl, text, ref, note, tech = checks[pid]
    m["checks"].append({
     "property_id": pid,
     "quick_cmd": f"bin/check {pid} quick",
     "thorough_cmd": f"bin/check {pid} thorough",
     "evidence_file": f"/verif/evidence/{pid}.json",
     "replay_cmd_template": "bin/check --replay {path}",
     "engine": "verifsim",
     "level_claimed": {"category": lvl, "text": text, "design_ref": "DESIGN.md section " + ref},
     "level_note": note,
     "technique": tech,
    })
claimed = set(checks)
props = [json.loads(l)["id"] for l in open(os.path.join(V, "properties.jsonl"))]
pending = [p for p in props if p not in claimed and p not in {i for i, _ in na}]
for p in pending:
    m["not_applicable"].append({"property_id": p, "reason": "not claimed yet: the check for this property is still being built (see DESIGN.md section 5); it is a simulation target and will move to checks"})
json.dump(m, open(os.path.join(V, "MANIFEST.json"), "w"), indent=1)
print("claimed", sorted(claimed), "pending", pending)
