#!/usr/bin/env python3
"""Generates mechanical mutants of the synchronisation code of markkurossi/mpc.

usage: bin/sync-mutants.py            (writes mutants/sync/NNN-<op>.<PROP>.diff and mutants/sync/index.json)

Operators (one mutant per site):
  BS  X.Broadcast() -> X.Signal()
  WR  a Signal()/Broadcast() call removed (lost wake-up)
  FI  `for cond {` directly followed by a Cond.Wait() -> `if cond {`
  LR  a Lock()/Unlock() pair of one function removed (only where no Wait() lies between)
  UE  an Unlock() moved before the statement that precedes it (lock released too early)
  LL  a Lock() moved after the statement that follows it (lock taken too late)
  SW  two adjacent simple statements swapped where one of them wakes, counts or hands over
  CC  a buffered channel made unbuffered / a buffer count reduced

Each mutant must still build (`go build ./...` in a scratch worktree of /repo); whether the
packages' own tests still pass is recorded (survives_tests) but not required.
"""
import json, os, re, subprocess, sys

V = os.path.dirname(os.path.dirname(os.path.abspath(__file__)))
WT = '/tmp/wt-syncmut'
FILES = {
    'p2p/network.go': 'C19',
    'p2p/protocol.go': 'C11',
    'gmw/triples.go': 'C10',
    'gmw/network.go': 'C10',
    'circuit/garble.go': 'C17',
}
TESTS = {'C19': './p2p/', 'C11': './p2p/', 'C10': './gmw/', 'C17': './circuit/'}
ENV = dict(os.environ, GOFLAGS='-mod=mod', GOPROXY='off')


def sh(cmd, cwd=None, timeout=300):
    return subprocess.run(cmd, shell=True, cwd=cwd, env=ENV, capture_output=True, text=True, timeout=timeout)


def simple(line):
    s = line.strip()
    if not s or s.startswith('//') or s.endswith('{') or s.startswith('}') or s.startswith('return') or s.startswith('defer'):
        return False
    if s.startswith(('if ', 'for ', 'switch ', 'case ', 'default', 'go ', 'else')):
        return False
    return s.endswith(')') or '=' in s or s.endswith('++') or s.endswith('--')


def func_bounds(lines, i):
    a = i
    while a > 0 and not lines[a].startswith('func '):
        a -= 1
    b = i
    while b < len(lines) - 1 and lines[b] != '}':
        b += 1
    return a, b


def mutants_of(path, lines):
    out = []
    for i, l in enumerate(lines):
        s = l.strip()
        if s.startswith('//'):
            continue
        if re.search(r'\.Broadcast\(\)$', s):
            out.append(('BS', i, [(i, l.replace('Broadcast()', 'Signal()'))], 'Broadcast -> Signal'))
            out.append(('WR', i, [(i, None)], 'Broadcast removed'))
        if re.search(r'\.Signal\(\)$', s):
            out.append(('WR', i, [(i, None)], 'Signal removed'))
        if s.startswith('for ') and s.endswith('{') and i + 1 < len(lines) and '.Wait()' in lines[i + 1]:
            out.append(('FI', i, [(i, l.replace('for ', 'if ', 1))], 'for around Wait -> if'))
        m = re.match(r'^(\s*)(defer )?([\w\.]+)\.Unlock\(\)$', l)
        if m and not m.group(2):
            # UE: move before the previous simple statement
            if i > 0 and simple(lines[i - 1]) and 'Lock()' not in lines[i - 1]:
                out.append(('UE', i, [(i - 1, l), (i, lines[i - 1])], 'Unlock moved one statement up'))
        m = re.match(r'^(\s*)([\w\.]+)\.Lock\(\)$', l)
        if m:
            recv = m.group(2)
            a, b = func_bounds(lines, i)
            # LL: move after the next simple statement
            if i + 1 < len(lines) and simple(lines[i + 1]) and 'Unlock' not in lines[i + 1] and 'Wait()' not in lines[i + 1]:
                out.append(('LL', i, [(i, lines[i + 1]), (i + 1, l)], 'Lock moved one statement down'))
            # LR: remove the pair
            j = i + 1
            if j <= b and lines[j].strip() == 'defer %s.Unlock()' % recv:
                body = lines[j + 1:b]
                if not any('.Wait()' in x for x in body):
                    out.append(('LR', i, [(i, None), (j, None)], 'Lock / defer Unlock pair removed'))
            else:
                k = i + 1
                ok = True
                while k <= b and lines[k].strip() != '%s.Unlock()' % recv:
                    if '.Wait()' in lines[k] or 'return' in lines[k]:
                        ok = False
                    k += 1
                if ok and k <= b:
                    out.append(('LR', i, [(i, None), (k, None)], 'Lock / Unlock pair removed'))
        if i + 1 < len(lines) and simple(l) and simple(lines[i + 1]):
            both = l + lines[i + 1]
            if re.search(r'need\[|--$|\+\+$|Broadcast\(\)|Signal\(\)|<-|append\(|\.Put\(|\.Store\(|= true$', both) and 'Lock()' not in both and 'Unlock()' not in both and ':=' not in both:
                out.append(('SW', i, [(i, lines[i + 1]), (i + 1, l)], 'adjacent statements swapped'))
        if re.search(r'make\(chan [^,]+, numBuffers\)', l):
            out.append(('CC', i, [(i, re.sub(r', numBuffers\)', ')', l))], 'buffered channel made unbuffered'))
        if re.match(r'^\s*numBuffers\s*=\s*3$', l):
            out.append(('CC', i, [(i, l.replace('3', '2'))], 'three write buffers -> two'))
    return out


def main():
    sh('git -C /repo worktree remove --force %s' % WT)
    r = sh('git -C /repo worktree add --detach %s HEAD' % WT)
    if r.returncode != 0:
        print(r.stderr)
        sys.exit(2)
    outdir = os.path.join(V, 'mutants', 'sync')
    os.makedirs(outdir, exist_ok=True)
    for f in os.listdir(outdir):
        if f.endswith('.diff'):
            os.remove(os.path.join(outdir, f))
    index = []
    n = 0
    for path, prop in FILES.items():
        src = open(os.path.join(WT, path)).read()
        lines = src.split('\n')
        for op, at, edits, what in mutants_of(path, lines):
            new = list(lines)
            for idx, repl in edits:
                new[idx] = repl
            new = [x for x in new if x is not None]
            open(os.path.join(WT, path), 'w').write('\n'.join(new))
            sh('gofmt -w %s' % path, cwd=WT)
            b = sh('go build ./... && go vet ./%s' % os.path.dirname(path), cwd=WT)
            if b.returncode != 0:
                sh('git checkout -- .', cwd=WT)
                continue
            try:
                t = sh('go test -vet=off -count=1 -timeout 60s %s' % TESTS[prop], cwd=WT, timeout=120)
                survives = t.returncode == 0
            except subprocess.TimeoutExpired:
                survives = False
            d = sh('git diff', cwd=WT).stdout
            sh('git checkout -- .', cwd=WT)
            if not d.strip():
                continue
            n += 1
            name = '%03d-%s.%s' % (n, op, prop)
            open(os.path.join(outdir, name + '.diff'), 'w').write(d)
            index.append({'name': name, 'property': prop, 'operator': op, 'file': path, 'line': at + 1,
                          'what': what, 'source_line': lines[at].strip(), 'survives_package_tests': survives})
            print(name, path, at + 1, what, 'tests:', 'pass' if survives else 'FAIL')
    json.dump(index, open(os.path.join(outdir, 'index.json'), 'w'), indent=1)
    sh('git -C /repo worktree remove --force %s' % WT)
    sh('git -C /repo worktree prune')
    print(len(index), 'mutants')


if __name__ == '__main__':
    main()
