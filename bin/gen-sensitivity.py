#!/usr/bin/env python3
"""Rewrites section 10 of DESIGN.md (the sensitivity table) from seeded/*/meta.json."""
import json, glob, os
V = os.path.dirname(os.path.dirname(os.path.abspath(__file__)))
rows = []
for d in sorted(glob.glob(V + '/seeded/*/meta.json')):
    m = json.load(open(d))
    rows.append(m)
missed = [m for m in rows if m['initially_missed']]
notcaught = [m for m in rows if m.get('not_caught')]
own = sorted(os.path.basename(f) for f in glob.glob(V + '/mutants/*.diff'))
waves = {}
for m in rows:
    w = m['name'].split('-')[1][0]
    waves.setdefault(w, [0, 0])
    waves[w][1] += 1
    if m['initially_missed']:
        waves[w][0] += 1
ordn = ['first', 'second', 'third', 'fourth', 'fifth', 'sixth', 'seventh', 'eighth', 'ninth', 'tenth', 'eleventh', 'twelfth', 'thirteenth', 'fourteenth', 'fifteenth', 'sixteenth', 'seventeenth', 'eighteenth', 'nineteenth', 'twentieth']
per_wave = ', '.join('%d of %d in the %s' % (waves[w][0], waves[w][1], ordn[ord(w) - ord('a')]) for w in sorted(waves))
out = '''## 10. Sensitivity: which check catches which seeded change

%s waves of fourteen independent sub-agents (one per claimed property and wave) were each given
only the text of one property and a scratch git worktree of /repo, nothing from /verif, and asked
for a small realistic change that breaks the property, still compiles, passes the repository's
tests and needs something specific to manifest, with a demonstration (the prompt is
`seeded/PROMPT.txt`, filled in by `bin/wave-prompt`). The second and third wave
were steered to a different anchor file of the property than the earlier ones, the fourth to a
kind of manifestation the earlier ones had not used (a boundary of a tuning constant, state that
survives between sessions or compilations, a transient fault, a count field, a release ordering),
the fifth to parts of each property's code that no earlier change had touched, the sixth to
breakages that need a history (a second session, call or compilation, a retry) or a particular
interleaving, the seventh away from the kinds of slip the earlier waves had favoured (stale
buffers, batching indices, lost errors), the eighth to breakage that depends on concurrency or on
the environment rather than on an input value (interleavings, relative speed, pooled objects,
legal corner behaviour of readers, writers and randomness sources; adding a goroutine, a lock, a
cache or a timeout "for speed" or "for robustness" was welcome), the ninth to breakage introduced
by a robustness or performance feature that involves time or parallelism (time-outs, deadlines,
retries with back-off, worker pools sized by `runtime.NumCPU()`, loops split across goroutines),
the tenth to failure-and-recovery paths (something fails or is aborted - a session, an OT batch, a
parse, a compilation, a Join - and the same process, object or connection is used again), the
eleventh to flow control (fine on generously buffered transports, broken on synchronous or
tiny-buffer ones) and to aliasing and retention (a value returned to or passed by the caller
shares memory with library state), the twelfth to two cooperating sites that are each correct
alone and to rarely used options and secondary entry points, the thirteenth was told to make
the change hard to find by random testing (a trigger below one in a million per random session
that structured real-world data produces readily), the fourteenth to break the property from a
distance (a dependency two or three hops away from the property's home files), the fifteenth to
leave the main route alone and break the property on an alternative route the library also
offers (a second entry point, a lower-level API, an in-memory transport, a rarely passed option,
the second use of an object), the sixteenth was given, per property, the files of its anchor set
that earlier waves had hardly touched and told to make the change there, in code that looks
finished and boring, the seventeenth that the breakage must be invisible to a test that compares
the values returned by a successful fault-free run and has to show in another aspect the property
talks about.
All %d changes were
confirmed by `bin/confirm-seeded` (patch applies to HEAD; `go build ./...`; `go test` of every
package except the root passes; the demonstration fails with the change and passes without it) and
are kept under `/verif/seeded/<name>/` (patch.diff, demonstration, NOTES.md of the sub-agent,
meta.json). `bin/seeded-sweep` applies each one to /repo, runs the quick check of its property and
reverts (`bin/try-seeded <worktree> <property>` does the same against a scratch worktree without
touching /repo); %d own mutants live under `/verif/mutants/` (hand-made ones and every `fix:`
commit reversed).

%d of the %d were **missed at first** (%s; three of the five of the sixth wave and one of the
eighth and eight of the ninth were strengthened from the sub-agent's report before the first run against them; one more
of the seventh is caught by the check of the property it really breaks, C15, not by C16's) and led
to the extensions marked below; no oracle was loosened or tightened for
them - only workloads, fault kinds, scheduling points, the independence of the harness's
expectations, (C04) one more monitor clause and (C11) one narrow clause for a new fault kind changed.
The eighth wave is the odd one out: ten of its fourteen changes were missed at first, because
nine of them break a property only when *one process does two things at once* (two sessions, two
compilations, two parses, a background goroutine racing its caller) or when the environment
behaves legally but unusually (a stalling randomness source, a transport that consumes its
payload late, a clock) - dimensions the worlds had, until then, only where the unchanged code
already had goroutines. The ninth wave tested the seams built for the eighth: all fourteen changes
use `time`, connection deadlines, `runtime.GOMAXPROCS` or added goroutines; six were caught at
once, eight after a workload extension made from the sub-agent's report before the first run
against the change (per-party and per-job CPU counts, wide CPU counts, a thousand input wires,
wide outputs, busy receivers and stalling links, start delays of minutes) - and one of them
(C14-i) first ended in exit 2, because a rewritten `go` statement ran in a package's `init`.
The tenth wave ("fail, then carry on") is where the line of the properties shows: eleven of its
fourteen changes are caught (three at once, one by the check of the property it really breaks,
seven after a fail-first mode was added to the world from the report), and **three are recorded as
not caught** (%s): each needs the application to keep using an object after an operation on it
returned an error in a way the unchanged library does not support in general either (repeat a
receive after a read error; call `Streaming.Garble` again after it failed; `Mul` again after a
`Mul` that failed on a size disagreement plus a read error). A check that demanded those was
built once (C11) and raised an alarm on the unchanged tree at its first run; it was withdrawn
(section 7). Their metas carry `not_caught` and `bin/seeded-sweep` skips them. One change (C05-m)
is `superseded`: the `fix:` 102384e removed the defect it built on, so its patch has nothing left to
break and no longer applies; ten patches around `Conn.Fill` were rebased by hand onto the `fix:`
a20f524 (originals kept as `patch.orig-before-a20f524.diff`).
The eleventh wave: eleven caught at once (transport capacities 0, 1 and 16 bytes, fragmenting
reads, second runs and sessions whose results are judged only after everything else has
happened were all there), three after an extension (a caller that edits what it was given, a
caller that reuses its result buffer, results of 65 thousand bits and more).
The twelfth wave: eight caught at once, six after an extension - every one a member of a
quantifier nobody had tried: the verbose flag, an empty slice of zero-width elements, a native
circuit with OR gates, label and bit batches on one IKNP pair, one endpoint spelled two ways, a
key buffer the caller refills.
The thirteenth wave aimed at the limits of sampling, and found them where the *generators* were
random rather than where the technique is: five caught at once, nine after a generator learned a
structure - negative numbers, a thousand protocol rounds times sixty-five, a million gates, 2^15
vector elements, a periodic corruption, two machines with one random stream, a symbol table
with holes, Go values instead of strings - and, for C17-m, after garbage collection became a seam.
None of the fourteen needed a coincidence that stays out of reach once the shape is generated.
The fourteenth wave (from a distance): ten caught at once - distance does not matter to a check
that runs the whole stack - and four after an extension: the default `env.Config` (no `Rand`),
which no world had ever used; `Conn`s made by the library's own network constructor;
`runtime.AddCleanup`; arrays of arrays. One (C04-n) is caught by C14's check, whose property it
breaks first.
The fifteenth wave (alternative routes): ten caught at once - eight of them are "the second use
of an object" or "two sessions at once", which the worlds have generated since the sixth and the
eighth wave - and four after an extension that put a route under the checks that no world had
taken: reading the byte counters through `IOStats.Add`, `circuit.Parse(path)`, a circuit value
built as a literal, Go-value inputs shorter than their array. A coverage measurement made just
before the wave (section 9) had pointed at two of the four routes (`IOStats.Add` never called; `circuit.Parse` reached only
through the compiler's `native()` with Bristol files); it had also put the library's in-memory pipes and the step-by-step OT transfer
objects under the checks, which no agent of this wave happened to choose.
The sixteenth wave (files hardly touched before): seven caught at once, seven after an extension -
the highest miss rate since the tenth wave, and the misses are of one kind: the *oracle or fault
model* lacked something, not the generator. An altered sha2pc message was followed no further
than "does not crash"; writes to the shared circuit value were invisible unless they changed a
result; a streaming session that broke was put aside before its transcript was scanned; accept
queues were FIFO; the choice buffer of the pure helpers was never touched again by its owner.
Each became a clause or a fault kind that is stated for the unchanged tree and holds there.
The seventeenth wave asked for exactly that kind of change (nothing a value comparison sees):
nine caught at once, three after a workload extension, two not caught because what they change
(recycling of wire ids, the caller's input vector) is outside what the properties state. Five of
the fourteen agents re-invented a slip of an earlier wave (`IOStats.Add` writing its receiver,
the early `Release` in sha2pc twice, one bulk `rand.Read`, a weakened KOS comparison) - the space
of small plausible breakages of these properties is being revisited rather than extended.
A last round turned the exercise around (bug hunt, section 0): eight sub-agents looked for
violations on the unchanged code. What they found, and the checks had not, was always a missing
*shape*: array concatenation and index-through-pointer in streamed programs, a dirty result buffer
for the packed-bit OT form (the label form had one), other-curve *values* handed to encoders (the
decoders got other-curve bytes), 257 connections per pair (at most 4), files that no writer produces
(a signature nested 1.5 million deep, a type name of a million bytes); in a second round, a
randomness source whose reads are shorter than a label (the world's short reads were multiples of
16 bytes on purpose), vector elements outside [0,p), a package of two source files. Each shape is
generated now, each of the ten fixes has its reversal under `mutants/`, and each reversal is caught
by the quick tier. Reports that were reproduced but left alone are listed in section 0.

Sweeps and thorough runs (all through `vp run`, from snapshots of committed /verif against /repo's
HEAD of the time; the worktree of `bin/seeded-sweep2` follows /repo's HEAD). Whole sweeps: after
the fourteenth wave 182 caught, 1 missed (C10-b); a second one under heavy load (fourteen
sub-agents, a thorough run and the checks of this session at the same time) 192 caught, 4 missed
(C04-k, C08-k, C10-b, C10-m - each needs one rare case of its world to be drawn within the budget;
each led to a change of that world and has been caught with three seeds out of three since) and 14
entries of C16 that ended in harness trouble (exit 2, never a verdict) under that load and were
caught when run again. After the last changes, sweeps per property at the final worlds: C05 19/19,
C06 20/20, C14 20/21 (C14-o missed: its route through `circuit.Parse(path)` needs a circuit with
a few dozen INV gates; INV-heavy circuits were added and it has been caught with two seeds out of
two since), C18 19/19, C19 20/20, C20 16/16, C04 18/18, C17 19/19, C08 18/20 (C08-p and the reversal
of 6e416dc ended in exit 2, not a verdict: they remove the `sort` import that the last `fix:`,
87f2ca4, now uses, so the combination did not build; both were rebased to keep the import and are
caught). After that every patch that touches a file changed by one of the late fixes (145 of them)
was checked to apply and to build. C02, C10, C11, C15, C16 were last swept as part of the whole
sweeps above (`SWEEPS.txt` in /verif has the raw lines). Thorough tier on the unchanged tree: VERIF_SEED
77, 2026 (each: 13 held, one false alarm of the C05 oracle, corrected - section 7), 31337 (found
the `IOArg.Set` defect), 4242 (all 14 held), 777 (the five worlds changed after that: held), 90125
(C05 C06 C14 C18 C19 after the bug-hunt fixes: held) and 5150 (C04 C08 C14 C20 after the second
round: held).

''' % (ordn[len(waves) - 1].capitalize(), len(rows), len(own), len(missed), len(rows), per_wave, ', '.join(m['name'] for m in notcaught))
out += '''| change | property | what was changed | needs | clause that fires | missed at first? |
|---|---|---|---|---|---|
'''
for m in rows:
    miss = ('yes: ' + m.get('strengthening', '')) if m['initially_missed'] else ('no' + (' (' + m['strengthening'] + ')' if m.get('strengthening') else ''))
    if m.get('rebased'):
        miss += ' [patch rebased by hand onto a later fix: commits and original in the meta; still caught]'
    if m.get('superseded'):
        miss += ' [superseded: ' + m['superseded'] + ']' 
    out += '| %s | %s | %s | %s | %s | %s |\n' % (m['name'], m['property'], m['change'].replace('|', '/'), m['needs_to_manifest'].replace('|', '/'), m['clause'], miss)
out += '''
What the misses taught (kept as rules for the workloads):

* Sizes must cross every *internal* boundary of every layer the property names, not only the
  boundaries of the layer under the harness's nose: evaluator inputs above 512 bits for the
  whole-circuit protocol (C02-a, C02-b), wire id 65536 exactly (C05-b), RSA key sizes that are not a
  multiple of 8 (C06-b).
* A "process" serves more than one session: two interleaved sessions per process with a
  tape-chosen stall between producing and serialising a message (C18-a), two concurrent Fx
  sessions (C20-b).
* Faults of the randomness source (a reader that fails after k bytes, a reader that returns short
  reads at block boundaries) and of a peer's request (the evaluator's OT range rewritten in
  transit) are part of the fault catalogue (C17-a, C04-a, C04-c).
* Compilation histories include *failed* compilations (C08-a) and name clashes between scopes
  (C08-b); generated programs include struct field updates (C05-a).
* The harness's expectation must not be computed with the library function under test: type
  infos of generated signatures are built directly and compared structurally, not through
  `types.Parse` / `Info.String` (C14-c).

* A release (Pool.Put, channel send, atomic store, unlock) needs a scheduling point *after* it as
  well as before: code that still touches what it has just handed over is only visible if another
  task can run before the releaser's next statement (C17-d).
* Tuning constants hide whole protocols behind sizes no test circuit reaches: the triple pool's
  refill protocol only starts above 260000 AND gates. The overlay turns such constants into
  per-run knobs (default = the source's value) so that small cases cross the boundary (C10-d).
* "Stalls and is aborted" has a second half: after a stall the simulator closes the sockets and
  lets the parties run on, because the wrong answer may only be returned then (C16-d); count and
  length fields are rewritten arithmetically (zero, minus one, halved), not only bit-flipped.
* A transport can fail once and work again (write timeout); the sender must be told (C11-d).
* Other tuning parameters in an earlier compilation of the same process are part of "history"
  (C08-d). State that survives between runs also misleads in-process shrinking: the orchestrator
  falls back to the unshrunk tape and, if needed, to the worker's process history.
* A deferred "done = true" in a harness task also runs when the kernel unwinds blocked tasks at
  the end of a run; the harness asks `rt.Unwinding()` (found with C10-d: the verdict was right,
  the clause name was not).

* Degenerate shapes are shapes: a 0-bit argument (C02-e), exactly two imports (C08-e). And the
  option a property names must be exercised where the user sets it: the malicious flag is an
  argument of `ot.NewCOT`, one layer above the IKNP calls the C15 world drove (C15-e).

* One process serves more than one session, call or compilation - everywhere: a second
  `circuit.Garbler`/`Evaluator` session on the same OT objects (C02-f), a second `Run` on one
  `gmw.Network` (C10-f), an `intern()` table that must not outlive its `Params` (C08-f). The worlds
  now run such second rounds in a share of their cases and judge them like the first.
* Constants have a signedness that a cache key can forget (C05-f); a signature can be longer than
  any line buffer (C14-f); a check batch can share coefficients with the batch it checks (C15-f).

* The transport contract has corners: a `Read` may return 0 bytes without error (C11-g). A base OT
  may replace the caller's labels (C06-g). An array may have length zero (C14-g).

* One process does several things *at once*, not only one after the other: two sessions share a
  circuit value's scratch pool (C02-h) and an `env.Config`'s randomness source (C04-h), two
  compilations share a pooled writer (C08-h), two parses share pooled flags (C14-h). Every world
  whose subject can be used from two goroutines now has a concurrent mode, judged per call by
  the unchanged oracle.
* The environment has legal behaviours the obvious harness never shows: a randomness source that
  is slow (C04-h) or returns short reads (C16-h), an `ot.IO` whose `SendData` reads its argument
  late (C06-h), a writer that blocks (C08-h), a clock (C19-h). They are fault kinds of the
  simulator now, each off in at least half of the runs.
* An optimisation adds the goroutines the unchanged code does not have: sizes must reach the
  point where the new pipeline wraps around (C15-h: more than four chunks; C06-h: more than two;
  C20-h: more than one write buffer).
* The tools must survive the change too: a constant used in a constant expression broke the knob
  rewrite (C05-h, exit 2, not a verdict - now a fallback build without knobs), `select` and
  `time` were refused or real (now simulated).
* Statement granularity is not sub-statement granularity: `x = grow(x)` copies and installs in
  one statement unless the helper has scheduling points of its own (C10-h).

* The machine is part of the environment: code that splits work by `runtime.NumCPU()` or
  `GOMAXPROCS` behaves differently on a 1-, 3-, 28- or 96-CPU host, and the two parties of a
  protocol are different hosts (C02-i, C06-i, C08-i, C15-i, C18-i, C20-i). The CPU count is a
  per-party tape choice now; the determinism self-test (real GOMAXPROCS 1/4/16) would otherwise
  have turned every such change into exit 2.
* Time is part of the environment: a deadline or time-out is harmless until a peer is a minute
  late, an application is busy, a link stalls (C05-i, C10-i, C11-i, C19-i and, in the eighth wave,
  C19-h). Virtual time makes "ten minutes late" cost microseconds.
* Library code runs before any run starts (package `init`): goroutines started there live in the
  ambient world (C14-i).
* Sizes again: a thousand input wires (C04-i), results of several machine words (C16-i).

* A process that has seen a failure goes on living: a session whose connection was reset, a
  garbler that ran out of randomness, a compilation with a typo, a full disk, a refused circuit,
  a Join whose address was still taken, a Receive called with the wrong slice - and the next
  operation in that process must be as good as ever (C02-j, C05-j, C06-j, C08-j, C10-j, C14-j,
  C16-j, C18-j, C19-j). Every world has a fail-first mode now; only what follows the failure is
  judged, by the unchanged oracle, and only where the library itself supports carrying on (a shared
  COT is bound to its first connection: re-initialising it after a failure was a slip of the
  harness, found on the unchanged tree before it was committed).

* What the caller holds is the caller's: it may keep a result across later calls, edit it in
  place, pass a buffer it has used before (C14-k, C15-k, C20-k). Results are judged after the
  whole run, callers scribble over what they got and over their own arguments between sessions,
  and a second call must not care.
* Buffers have two sides: a result wider than every buffer between the parties deadlocks a
  reply-as-you-read loop (C05-k). (And the generator must not be quadratic in the compiler: the
  first wide-result family cost 5 GB per case and killed the shrinking worker.)

* "Every", "any", "whichever" in a property mean the options too: verbose and diagnostics flags
  (C16-l), circuits from other tools (C05-l), the second form of the same primitive on the same
  object (C06-l), the other spelling of the same address (C19-l), the empty slice (C14-l), the key
  buffer a caller refills (C17-l). Each is one more tape choice in a world.

* Random generators make random data; users make structured data: negative numbers (C02-m, C05-m),
  equal operands, runs of ones, exact powers of two as sizes (C14-m 2^20, C20-m 2^15, C10-m 2^16),
  periodic damage (C16-m), cloned machines (C18-m), hand-edited files (C08-m). Every generator has a
  structured branch now; the expensive shapes (a million gates, 65 thousand rounds) are one case in
  a few hundred.
* A test circuit must not forgive: the first deep chain of C10 reset itself at every 0 bit and
  computed the right answer from wrong intermediate values.
* The garbage collector is a scheduler too (C17-m): finalizers run when the simulator says so.

* The default is an option too: every world passed its own randomness source, so
  `env.Config{}` - what most callers use - had never run (C16-n). And objects made by the library's
  own constructors (a socket wrapped by `p2p.Network`) differ from the ones a harness makes (C11-n).

Own mutants (`/verif/mutants/*.diff`; `revert-<commit>` is a `fix:` commit reversed): ''' + ', '.join(own) + '''.

---------------------------------------------------------------------------------------------

'''
# mechanical synchronisation mutants
sync_idx = V + '/mutants/sync/index.json'
sync_res = V + '/mutants/sync/results.json'
if os.path.exists(sync_idx) and os.path.exists(sync_res):
    idx = json.load(open(sync_idx))
    resm = json.load(open(sync_res))
    notes = {}
    if os.path.exists(V + '/mutants/sync/notes.json'):
        notes = json.load(open(V + '/mutants/sync/notes.json'))
    killed = [m for m in idx if resm.get(m['name'], {}).get('exit') == 1]
    surv = [m for m in idx if resm.get(m['name'], {}).get('exit') == 0]
    other = [m for m in idx if resm.get(m['name'], {}).get('exit') not in (0, 1)]
    ops = {}
    for m in idx:
        o = ops.setdefault(m['operator'], [0, 0])
        o[1] += 1
        if m in killed:
            o[0] += 1
    out += ("### 10b. Mechanical mutants of the synchronisation code\n\n"
            "`bin/sync-mutants.py` applies eight operators to every site in `p2p/network.go`, `p2p/protocol.go`,\n"
            "`gmw/triples.go`, `gmw/network.go` and `circuit/garble.go` (Broadcast -> Signal, wake-up removed,\n"
            "`for` around `Wait` -> `if`, lock pair removed, unlock one statement early, lock one statement late,\n"
            "adjacent hand-over statements swapped, channel buffer reduced); a mutant must still build.\n"
            "`bin/sync-sweep` runs each against the quick check of its property. Of %d mutants (%d of them still\n"
            "pass their package's own tests) **%d are killed, %d survive**%s. Per operator (killed/total): %s.\n\n"
            "| mutant | file:line | operator | source line | package tests | quick check |\n|---|---|---|---|---|---|\n"
            % (len(idx), sum(1 for m in idx if m['survives_package_tests']), len(killed), len(surv),
               (', %d ended in harness trouble' % len(other)) if other else '',
               ', '.join('%s %d/%d' % (k, v[0], v[1]) for k, v in sorted(ops.items()))))
    for m in idx:
        r = resm.get(m['name'], {})
        verdict = {1: 'killed: ' + r.get('clause', ''), 0: '**survives**'}.get(r.get('exit'), 'exit %s' % r.get('exit'))
        if m['name'] in notes:
            verdict += ' - ' + notes[m['name']]
        out += '| %s | %s:%d | %s (%s) | `%s` | %s | %s |\n' % (m['name'], m['file'], m['line'], m['operator'], m['what'], m['source_line'].replace('|', '/'), 'pass' if m['survives_package_tests'] else 'fail', verdict)
    nrace = sum(1 for m in surv if 'data race' in notes.get(m['name'], ''))
    nscope = sum(1 for m in surv if 'out of scope' in notes.get(m['name'], ''))
    out += ("\nEvery survivor was read against the code (the verdict column gives the reason): %d are equivalent for the\n"
            "property (both statements under the lock, a legal Signal/Broadcast after Unlock, statistics, a legal buffer\n"
            "count, an enclosing loop that re-tests), %d concern the end of the accept loop or Close, which the\n"
            "fault-free runs of C19/C10 do not reach before the judged calls return, and %d are **data races only**:\n"
            "a lock removed around a single map or field access changes nothing at statement granularity. That last\n"
            "group is the honest blind spot of this technique here: the simulator interleaves at synchronisation\n"
            "points and, in variant `stmt`, before every statement of the mutex-guarded functions, but it has no\n"
            "happens-before detector, and under its one-task-at-a-time hand-off the Go race detector sees every\n"
            "access as ordered. (C17 has the race-detector companion on real goroutines for this reason.) The killed\n"
            "lock mutants (014, 038) are exactly those where the unguarded section spans more than one statement -\n"
            "they need the statement-level scheduling points and were not killed before variant `stmt` existed.\n"
            % (len(surv) - nrace - nscope, nscope, nrace))
    out += '\n---------------------------------------------------------------------------------------------\n\n'

p = V + '/DESIGN.md'
s = open(p).read()
a = s.index('## 10. Sensitivity: which check catches which seeded change')
b = s.index('## Appendix A.')
open(p, 'w').write(s[:a] + out + s[b:])
print(len(rows), 'seeded,', len(missed), 'missed at first,', len(own), 'own mutants')
