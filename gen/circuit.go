// Package gen holds the generators (circuits, inputs) and the harness's own
// reference evaluator, which is independent of the library under test.
package gen

import (
	"fmt"
	"math/big"

	"github.com/markkurossi/mpc/circuit"
	"github.com/markkurossi/mpc/types"

	"verifsim/sim/rt"
)

// CircuitOpts bounds the generated circuits.
type CircuitOpts struct {
	Parties    int  // number of input arguments (default 2)
	MaxIn      int  // max bits per input (default 24)
	MaxOuts    int  // max declared outputs (default 4)
	MaxOutW    int  // max width of one output (default 17)
	MaxGates   int  // extra gates beyond the outputs (default 400)
	WideLast   int  // if > 0: one case in five gives the last party 513..WideLast input bits (several OT-extension chunks)
	SignedArgs bool // a third of the arguments are intN; Inputs gives them negative numbers (as *big.Int) half of the time when the sign bit is set
	WideAny    int  // if > 0: one case in six gives every party 400..WideAny input bits (more than a thousand input wires in all)
	GMW        bool // only XOR/XNOR/AND/INV
	// ZeroWidth: one case in ten gives one party (not all) a 0-bit argument
	// ([0]byte, or an unsized argument instantiated with nothing).
	ZeroWidth bool
	FixedOuts int // if > 0: exactly this many declared outputs
	ANDHeavy  bool
	INVHeavy  bool // three gates in five are INV (circuits converted from other tools' formats)
}

func uintType(bits int) types.Info {
	t, err := types.Parse(fmt.Sprintf("uint%d", bits))
	if err != nil {
		panic(err)
	}
	return t
}

func intType(bits int) types.Info {
	t, err := types.Parse(fmt.Sprintf("int%d", bits))
	if err != nil {
		panic(err)
	}
	return t
}

// Circuit draws a well-formed circuit from the tape.
func Circuit(t *rt.Tape, o CircuitOpts) *circuit.Circuit {
	if o.Parties == 0 {
		o.Parties = 2
	}
	if o.MaxIn == 0 {
		o.MaxIn = 24
	}
	if o.MaxOuts == 0 {
		o.MaxOuts = 4
	}
	if o.MaxOutW == 0 {
		o.MaxOutW = 17
	}
	if o.MaxGates == 0 {
		o.MaxGates = 400
	}
	c := &circuit.Circuit{}
	nin := 0
	zero := -1
	if o.ZeroWidth && t.Choose(rt.SGen, 10) == 0 {
		zero = t.Choose(rt.SGen, o.Parties)
	}
	wideAll := o.WideAny > 400 && t.Choose(rt.SGen, 6) == 0
	for p := 0; p < o.Parties; p++ {
		if wideAll {
			bits := 400 + t.Choose(rt.SGen, o.WideAny-400)
			if t.Choose(rt.SGen, 3) == 0 {
				bits = []int{512, 1024, 768}[t.Choose(rt.SGen, 3)]
			}
			c.Inputs = append(c.Inputs, circuit.IOArg{Name: fmt.Sprintf("in%d", p), Type: uintType(bits)})
			nin += bits
			continue
		}
		if p == zero {
			c.Inputs = append(c.Inputs, circuit.IOArg{Name: fmt.Sprintf("in%d", p), Type: uintType(0)})
			continue
		}
		bits := 1 + t.Choose(rt.SGen, o.MaxIn)
		if t.Choose(rt.SGen, 4) == 0 {
			bits = 1 + t.Choose(rt.SGen, 3)
		}
		if o.WideLast > 513 && p == o.Parties-1 && t.Choose(rt.SGen, 5) == 0 {
			bits = 513 + t.Choose(rt.SGen, o.WideLast-513)
		}
		ty := uintType(bits)
		if o.SignedArgs && t.Choose(rt.SGen, 3) == 0 {
			ty = intType(bits) // a signed argument: its callers pass negative numbers
		}
		c.Inputs = append(c.Inputs, circuit.IOArg{Name: fmt.Sprintf("in%d", p), Type: ty})
		nin += bits
	}
	nouts := 1 + t.Choose(rt.SGen, o.MaxOuts)
	if o.FixedOuts > 0 {
		nouts = o.FixedOuts
	}
	outSize := 0
	for i := 0; i < nouts; i++ {
		w := 1 + t.Choose(rt.SGen, o.MaxOutW)
		if t.Choose(rt.SGen, 3) == 0 {
			w = 1
		}
		c.Outputs = append(c.Outputs, circuit.IOArg{Name: fmt.Sprintf("out%d", i), Type: uintType(w)})
		outSize += w
	}
	extra := 0
	switch t.Choose(rt.SGen, 4) {
	case 0:
		extra = 0
	case 1:
		extra = t.Choose(rt.SGen, 12)
	default:
		extra = t.Choose(rt.SGen, o.MaxGates+1)
	}
	ngates := outSize + extra
	ops := []circuit.Operation{circuit.XOR, circuit.XNOR, circuit.AND, circuit.OR, circuit.INV}
	if o.GMW {
		ops = []circuit.Operation{circuit.XOR, circuit.XNOR, circuit.AND, circuit.INV}
	}
	if o.INVHeavy {
		ops = append(ops, circuit.INV, circuit.INV, circuit.INV, circuit.INV, circuit.INV)
	}
	shape := t.Choose(rt.SGen, 11)
	if o.ANDHeavy {
		shape = 5
	}
	hub := circuit.Wire(t.Choose(rt.SGen, max(1, nin))) // shape 9: one wire feeds (almost) every gate
	c.Gates = make([]circuit.Gate, ngates)
	for i := 0; i < ngates; i++ {
		avail := nin + i
		pick := func() circuit.Wire {
			switch shape {
			case 1: // chain: prefer the most recent wires
				return circuit.Wire(avail - 1 - t.Choose(rt.SGen, min(avail, 3)))
			case 2: // fan-out of few wires
				return circuit.Wire(t.Choose(rt.SGen, min(avail, 3)))
			case 8: // a strict chain: every gate reads the previous gate's output (depth = number of gates)
				return circuit.Wire(avail - 1)
			case 9: // one wire with a fan-out of (almost) all gates
				if t.Choose(rt.SGen, 8) != 0 {
					return hub
				}
			case 10: // wide and shallow: gates read input wires only
				return circuit.Wire(t.Choose(rt.SGen, max(1, min(avail, nin))))
			}
			return circuit.Wire(t.Choose(rt.SGen, avail))
		}
		var op circuit.Operation
		switch shape {
		case 3: // INV only
			op = circuit.INV
		case 4: // XNOR heavy
			if t.Choose(rt.SGen, 4) != 0 {
				op = circuit.XNOR
			} else {
				op = ops[t.Choose(rt.SGen, len(ops))]
			}
		case 5: // AND heavy (many AND levels)
			if t.Choose(rt.SGen, 3) != 0 {
				op = circuit.AND
			} else {
				op = ops[t.Choose(rt.SGen, len(ops))]
			}
		case 6: // OR/INV heavy (row-reduced tables)
			if o.GMW {
				op = ops[t.Choose(rt.SGen, len(ops))]
			} else {
				op = []circuit.Operation{circuit.OR, circuit.INV, circuit.OR, circuit.AND}[t.Choose(rt.SGen, 4)]
			}
		default:
			op = ops[t.Choose(rt.SGen, len(ops))]
		}
		g := circuit.Gate{Op: op, Output: circuit.Wire(nin + i)}
		g.Input0 = pick()
		if op != circuit.INV {
			if t.Choose(rt.SGen, 8) == 0 && shape != 8 {
				g.Input1 = g.Input0 // the same wire as both inputs
			} else if shape == 8 {
				g.Input1 = circuit.Wire(t.Choose(rt.SGen, avail)) // the chain's other operand: anything
			} else {
				g.Input1 = pick()
			}
		}
		c.Gates[i] = g
		c.Stats[op]++
	}
	c.NumGates = ngates
	c.NumWires = nin + ngates
	return c
}

// Inputs draws one input value per circuit argument.
func Inputs(t *rt.Tape, c *circuit.Circuit) []*big.Int {
	var out []*big.Int
	var prev *big.Int
	for _, in := range c.Inputs {
		bits := int(in.Type.Bits)
		v := Value(t, bits, prev)
		prev = v
		if in.Type.Type == types.TInt && bits > 0 && v.Bit(bits-1) == 1 && t.Choose(rt.SGen, 2) == 0 {
			// the same bits as a negative number: what IOArg.Parse makes of "-3" (big.Int.Bit gives
			// the two's complement bits, so every reference computation is unchanged)
			v = new(big.Int).Sub(v, new(big.Int).Lsh(big.NewInt(1), uint(bits)))
		}
		out = append(out, v)
	}
	return out
}

// Value draws an input value of the given width the way real data looks, not only the way a
// random generator makes it: zero, all ones, one bit, a run of low or high ones (a carry that
// ripples), all ones but one bit, alternating patterns, the same value as another party's (prev)
// or its complement, small numbers, and uniformly random bits.
func Value(t *rt.Tape, bits int, prev *big.Int) *big.Int {
	v := new(big.Int)
	if bits <= 0 {
		return v
	}
	ones := func(n int) *big.Int { return new(big.Int).Sub(new(big.Int).Lsh(big.NewInt(1), uint(n)), big.NewInt(1)) }
	mask := ones(bits)
	switch t.Choose(rt.SGen, 14) {
	case 0: // zero
	case 1: // all ones
		v.Set(mask)
	case 2: // single bit
		v.SetBit(v, t.Choose(rt.SGen, bits), 1)
	case 3: // a run of low ones: 2^k - 1
		v.Set(ones(1 + t.Choose(rt.SGen, bits)))
	case 4: // a run of high ones
		v.Xor(mask, ones(t.Choose(rt.SGen, bits)))
	case 5: // all ones but one bit
		v.Set(mask)
		v.SetBit(v, t.Choose(rt.SGen, bits), 0)
	case 6: // 0101...
		for b := 0; b < bits; b += 2 {
			v.SetBit(v, b, 1)
		}
	case 7: // 1010...
		for b := 1; b < bits; b += 2 {
			v.SetBit(v, b, 1)
		}
	case 8: // the other party's value, or its complement
		if prev != nil {
			v.And(prev, mask)
			if t.Choose(rt.SGen, 2) == 0 {
				v.Xor(v, mask)
			}
			break
		}
		fallthrough
	case 9: // a small number
		v.SetInt64(int64(t.Choose(rt.SGen, 300)))
		v.And(v, mask)
	default:
		for b := 0; b < bits; b += 16 {
			x := t.Choose(rt.SGen, 1<<16)
			for j := 0; j < 16 && b+j < bits; j++ {
				if x>>j&1 == 1 {
					v.SetBit(v, b+j, 1)
				}
			}
		}
	}
	return v
}

// Eval is the harness's own gate-by-gate truth-table evaluator: it returns
// one value per declared output, split at the declared widths.
func Eval(c *circuit.Circuit, inputs []*big.Int) []*big.Int {
	wires := make([]uint8, c.NumWires)
	w := 0
	for i, in := range c.Inputs {
		for b := 0; b < int(in.Type.Bits); b++ {
			wires[w] = uint8(inputs[i].Bit(b))
			w++
		}
	}
	for _, g := range c.Gates {
		a := wires[g.Input0]
		var b uint8
		if g.Op != circuit.INV {
			b = wires[g.Input1]
		}
		var r uint8
		switch g.Op {
		case circuit.XOR:
			r = a ^ b
		case circuit.XNOR:
			r = 1 ^ a ^ b
		case circuit.AND:
			r = a & b
		case circuit.OR:
			r = a | b
		case circuit.INV:
			r = 1 ^ a
		default:
			panic("gen.Eval: unknown gate")
		}
		wires[g.Output] = r
	}
	outSize := 0
	for _, o := range c.Outputs {
		outSize += int(o.Type.Bits)
	}
	w = c.NumWires - outSize
	var out []*big.Int
	for _, o := range c.Outputs {
		v := new(big.Int)
		for b := 0; b < int(o.Type.Bits); b++ {
			if wires[w] == 1 {
				v.SetBit(v, b, 1)
			}
			w++
		}
		out = append(out, v)
	}
	return out
}

// EqualOutputs compares two output vectors element-wise.
func EqualOutputs(a, b []*big.Int) bool {
	if len(a) != len(b) {
		return false
	}
	for i := range a {
		if a[i] == nil || b[i] == nil || a[i].Cmp(b[i]) != 0 {
			return false
		}
	}
	return true
}

// Describe renders a circuit shape.
func Describe(c *circuit.Circuit) string {
	s := "in="
	for i, in := range c.Inputs {
		if i > 0 {
			s += ","
		}
		s += fmt.Sprint(in.Type.Bits)
	}
	s += " out="
	for i, o := range c.Outputs {
		if i > 0 {
			s += ","
		}
		s += fmt.Sprint(o.Type.Bits)
	}
	return fmt.Sprintf("%s gates=%d (xor=%d xnor=%d and=%d or=%d inv=%d)", s, c.NumGates,
		c.Stats[circuit.XOR], c.Stats[circuit.XNOR], c.Stats[circuit.AND], c.Stats[circuit.OR], c.Stats[circuit.INV])
}

// FmtInts renders big.Int vectors.
func FmtInts(v []*big.Int) string {
	s := "["
	for i, x := range v {
		if i > 0 {
			s += " "
		}
		if x == nil {
			s += "nil"
		} else {
			s += "0x" + x.Text(16)
		}
	}
	return s + "]"
}

// FlattenInputs splits one value per circuit argument into one value per
// compound member, which is what Circuit.Compute expects.
func FlattenInputs(c *circuit.Circuit, in []*big.Int) []*big.Int {
	var out []*big.Int
	for i, arg := range c.Inputs {
		if len(arg.Compound) == 0 {
			out = append(out, in[i])
			continue
		}
		ofs := 0
		for _, m := range arg.Compound {
			v := new(big.Int)
			for b := 0; b < int(m.Type.Bits); b++ {
				if in[i].Bit(ofs+b) == 1 {
					v.SetBit(v, b, 1)
				}
			}
			ofs += int(m.Type.Bits)
			out = append(out, v)
		}
	}
	return out
}
