package gen

import (
	"fmt"
	"strings"

	"verifsim/sim/rt"
)

// MPCL draws a two-party MPCL program. The generator does not need to know
// MPCL semantics (the oracles are differential); it only has to produce
// programs that compile reasonably often, biased towards what streaming mode
// alone has: chains of aliasing instructions (slices, constant shifts, casts,
// array updates) whose first members die early, declared-but-unassigned
// variables, repeated instruction texts, and - in one family - more than
// 65535 live wires. It also returns the probe input sizes.
func MPCL(t *rt.Tape) (string, [][]int) {
	g := &mgen{t: t}
	if t.Choose(rt.SGen, 12) == 0 {
		return g.large()
	}
	if t.Choose(rt.SGen, 30) == 0 {
		return g.concatArgs()
	}
	return g.program()
}

// concatArgs produces a program whose two array arguments are concatenated and never used again:
// in streaming mode the result shares the wires of the arguments; computed values as wide as one
// argument follow, then the concatenation is returned.
func (g *mgen) concatArgs() (string, [][]int) {
	n := 1 + g.ch(4)
	e := []int{8, 16, 8, 32}[g.ch(4)]
	w := n * e
	var b strings.Builder
	fmt.Fprintf(&b, "package main\n\nfunc main(a, b [%d]uint%d) ([]uint%d, uint%d) {\n", n, e, e, w)
	fmt.Fprintf(&b, "\tc := a + b\n")
	fmt.Fprintf(&b, "\ts := uint%d(c[%d]) + uint%d(c[%d])\n", w, g.ch(2*n), w, g.ch(2*n))
	fmt.Fprintf(&b, "\tt := s * s\n")
	if g.ch(2) == 0 {
		fmt.Fprintf(&b, "\tt = t + uint%d(c[%d])\n", w, g.ch(2*n))
	}
	fmt.Fprintf(&b, "\treturn c, t\n}\n")
	return b.String(), [][]int{{8}, {8}}
}

// MPCLLarge generates a program of the family with more than 65535 live wires (see large).
func MPCLLarge(t *rt.Tape) (string, [][]int) {
	g := &mgen{t: t}
	return g.large()
}

type mtype struct {
	kind  int // 0 uint, 1 int, 2 bool, 3 array of uint
	bits  int
	count int // arrays
}

func (m mtype) String() string {
	switch m.kind {
	case 0:
		return fmt.Sprintf("uint%d", m.bits)
	case 1:
		return fmt.Sprintf("int%d", m.bits)
	case 2:
		return "bool"
	}
	return fmt.Sprintf("[%d]uint%d", m.count, m.bits)
}

type mvar struct {
	name string
	typ  mtype
	ro   bool
}

type mgen struct {
	t       *rt.Tape
	vars    []mvar
	n       int
	lines   []string
	ind     int
	decls   []string // type declarations
	structW []int    // total widths of the structs in use
}

// newStruct declares a struct type and returns its name, its fields and its total width.
func (g *mgen) newStruct() (string, []mvar, int) {
	name := fmt.Sprintf("S%d", len(g.decls))
	nf := 2 + g.ch(2)
	var fields []mvar
	var sb strings.Builder
	fmt.Fprintf(&sb, "type %s struct {\n", name)
	total := 0
	for i := 0; i < nf; i++ {
		w := []int{8, 16, 32, 4, 16, 32}[g.ch(6)]
		if total+w > 64 {
			w = 8
		}
		total += w
		kind := 0
		if g.ch(3) == 0 {
			kind = 1 // a signed member: its callers pass negative numbers
		}
		f := mvar{name: fmt.Sprintf("f%d", i), typ: mtype{kind: kind, bits: w}}
		if n := 2 + g.ch(3); i > 0 && g.ch(3) == 0 && total-w+8*n <= 64 {
			// a byte-array member (a key, a nonce): callers that pass Go values may pass fewer elements
			total += 8*n - w
			f.typ = mtype{kind: 3, bits: 8, count: n}
			if g.ch(2) == 0 { // after a signed member
				fields[i-1].typ.kind = 1
			}
		}
		fields = append(fields, f)
	}
	for _, f := range fields {
		fmt.Fprintf(&sb, "\t%s %s\n", f.name, f.typ)
	}
	sb.WriteString("}\n")
	g.decls = append(g.decls, sb.String())
	g.structW = append(g.structW, total)
	return name, fields, total
}

// useStruct registers the fields of struct value v as variables.
func (g *mgen) useStruct(v string, fields []mvar, ro bool) {
	for _, f := range fields {
		g.vars = append(g.vars, mvar{name: v + "." + f.name, typ: f.typ, ro: ro || f.typ.kind == 3})
	}
}

var widths = []int{8, 16, 32, 64, 1, 2, 3, 7, 9, 15, 17, 31, 33, 12, 24}

func (g *mgen) ch(n int) int { return g.t.Choose(rt.SGen, n) }

func (g *mgen) intType() mtype {
	w := widths[g.ch(len(widths))]
	if g.ch(3) == 0 {
		w = []int{8, 16, 32}[g.ch(3)]
	}
	return mtype{kind: g.ch(2), bits: w}
}

func (g *mgen) emit(format string, args ...any) {
	g.lines = append(g.lines, strings.Repeat("\t", g.ind)+fmt.Sprintf(format, args...))
}

func (g *mgen) fresh(prefix string) string {
	g.n++
	return fmt.Sprintf("%s%d", prefix, g.n)
}

func (g *mgen) varsOf(ty mtype, writable bool) []mvar {
	var out []mvar
	for _, v := range g.vars {
		if v.typ == ty && (!writable || !v.ro) {
			out = append(out, v)
		}
	}
	return out
}

func (g *mgen) intVars() []mvar {
	var out []mvar
	for _, v := range g.vars {
		if v.typ.kind <= 1 {
			out = append(out, v)
		}
	}
	return out
}

func (g *mgen) arrVars() []mvar {
	var out []mvar
	for _, v := range g.vars {
		if v.typ.kind == 3 {
			out = append(out, v)
		}
	}
	return out
}

func (g *mgen) constant(ty mtype) string {
	if ty.bits >= 2 && g.ch(6) == 0 {
		// boundary constants: negative literals, and the same 32-bit patterns
		// (top bit set) once as a signed and once as an unsigned value
		if ty.kind == 1 {
			c := []string{"-1", "-2", "-1", fmt.Sprint(-(int64(1) << uint(min(ty.bits, 63)-1))), fmt.Sprint(int64(1)<<uint(min(ty.bits, 63)-1) - 1)}
			return c[g.ch(len(c))]
		}
		c := []string{fmt.Sprint(uint64(1)<<uint(min(ty.bits, 63)) - 1)}
		if ty.bits >= 32 {
			c = append(c, "0xffffffff", "0x80000000", "0xfffffffe", "0xffffffff")
		}
		return c[g.ch(len(c))]
	}
	max := uint64(1) << uint(min(ty.bits, 16))
	if ty.kind == 1 {
		max = uint64(1) << uint(min(ty.bits-1, 15))
		if ty.bits == 1 {
			return "0"
		}
	}
	switch g.ch(4) {
	case 0:
		return "0"
	case 1:
		return "1"
	case 2:
		return fmt.Sprint(max - 1)
	}
	return fmt.Sprint(uint64(g.ch(int(max))))
}

// bareLiteral is an untyped literal that fits ty (the compiler stores it at 32
// or 64 bits and re-sizes it where it is used: sign-extended for signed,
// zero-extended for unsigned destinations).
func (g *mgen) bareLiteral(ty mtype) string {
	if ty.kind == 2 {
		return []string{"true", "false"}[g.ch(2)]
	}
	if ty.bits < 32 {
		// the compiler types a bare literal int32/uint32 and refuses to assign it
		// to a narrower variable: narrow destinations get a converted constant
		return fmt.Sprintf("%s(%s)", ty, g.constant(ty))
	}
	if ty.kind == 1 {
		return []string{"-1", "-1", "-2", "0", "1", "300", "-2147483648", "2147483647"}[g.ch(8)]
	}
	return []string{"0", "1", "0xffff", "300", "0xffffffff", "0xffffffff", "0x80000000", "0xfffffffe"}[g.ch(8)]
}

// armValue is the value assigned in one arm of an if/else: an expression or a
// bare literal (a phi of two constants is what the streamer re-sizes).
func (g *mgen) armValue(ty mtype) string {
	if g.ch(2) == 0 {
		return g.bareLiteral(ty)
	}
	return g.expr(ty, 1)
}

// expr produces an expression of integer type ty.
func (g *mgen) expr(ty mtype, depth int) string {
	if ty.kind == 2 {
		return g.boolExpr(depth)
	}
	same := g.varsOf(ty, false)
	others := g.intVars()
	arrs := g.arrVars()
	leaf := func() string {
		switch g.ch(6) {
		case 0:
			return fmt.Sprintf("%s(%s)", ty, g.constant(ty))
		case 1, 2:
			if len(others) > 0 {
				v := others[g.ch(len(others))]
				if v.typ == ty {
					return v.name
				}
				return fmt.Sprintf("%s(%s)", ty, v.name)
			}
		case 3:
			if len(arrs) > 0 {
				a := arrs[g.ch(len(arrs))]
				el := fmt.Sprintf("%s[%d]", a.name, g.ch(a.typ.count))
				if a.typ.bits == ty.bits && ty.kind == 0 {
					return el
				}
				return fmt.Sprintf("%s(%s)", ty, el)
			}
		}
		if len(same) > 0 {
			return same[g.ch(len(same))].name
		}
		if len(others) > 0 {
			v := others[g.ch(len(others))]
			return fmt.Sprintf("%s(%s)", ty, v.name)
		}
		return fmt.Sprintf("%s(%s)", ty, g.constant(ty))
	}
	if depth <= 0 {
		return leaf()
	}
	switch g.ch(10) {
	case 0, 1:
		return leaf()
	case 2, 3:
		op := []string{"+", "-", "&", "|", "^"}[g.ch(5)]
		return fmt.Sprintf("(%s %s %s)", g.expr(ty, depth-1), op, g.expr(ty, depth-1))
	case 4, 5: // constant shifts: aliasing in streaming mode
		op := []string{"<<", ">>"}[g.ch(2)]
		return fmt.Sprintf("(%s %s %d)", g.expr(ty, depth-1), op, g.ch(ty.bits+2))
	case 6: // cast chain through another width
		mid := g.intType()
		return fmt.Sprintf("%s(%s(%s))", ty, mid, g.expr(ty, depth-1))
	case 7:
		if ty.bits <= 24 {
			return fmt.Sprintf("(%s * %s)", g.expr(ty, depth-1), g.expr(ty, depth-1))
		}
	case 8:
		if ty.bits <= 12 && ty.bits > 1 {
			op := []string{"/", "%"}[g.ch(2)]
			return fmt.Sprintf("(%s %s %s)", g.expr(ty, depth-1), op, g.expr(ty, 0))
		}
	}
	return fmt.Sprintf("(%s + %s)", g.expr(ty, depth-1), leaf())
}

func (g *mgen) boolExpr(depth int) string {
	bools := g.varsOf(mtype{kind: 2}, false)
	if depth <= 0 && len(bools) > 0 && g.ch(2) == 0 {
		return bools[g.ch(len(bools))].name
	}
	switch g.ch(6) {
	case 0:
		if depth > 0 {
			op := []string{"&&", "||"}[g.ch(2)]
			return fmt.Sprintf("(%s %s %s)", g.boolExpr(depth-1), op, g.boolExpr(depth-1))
		}
	case 1:
		if depth > 0 {
			return fmt.Sprintf("!(%s)", g.boolExpr(depth-1))
		}
	}
	ty := g.intType()
	if iv := g.intVars(); len(iv) > 0 && g.ch(3) != 0 {
		ty = iv[g.ch(len(iv))].typ
	}
	op := []string{"<", "<=", ">", ">=", "==", "!="}[g.ch(6)]
	return fmt.Sprintf("(%s %s %s)", g.expr(ty, depth-1), op, g.expr(ty, depth-1))
}

func (g *mgen) stmt(depth int) {
	switch g.ch(18) {
	case 16: // concatenation of two arrays: the result shares its operands' wires in streaming mode;
		// the operands are not used again, computed values of their width follow, then the result is read
		arrs := g.arrVars()
		ivs := g.intVars()
		if len(arrs) == 0 || len(ivs) == 0 {
			return
		}
		a := arrs[g.ch(len(arrs))]
		var same []mvar
		for _, x := range arrs {
			if x.typ.bits == a.typ.bits {
				same = append(same, x)
			}
		}
		b := same[g.ch(len(same))]
		if (a.typ.count+b.typ.count)*a.typ.bits > 256 {
			return
		}
		el := mtype{kind: 0, bits: a.typ.bits}
		cc := g.fresh("cat")
		an, bn := a.name, b.name
		if g.ch(3) != 0 {
			// operands nobody uses again: two local arrays filled with computed elements
			an, bn = g.fresh("op"), g.fresh("op")
			for _, o := range []struct {
				n string
				c int
			}{{an, a.typ.count}, {bn, b.typ.count}} {
				g.emit("var %s [%d]%s", o.n, o.c, el)
				for k := 0; k < o.c; k++ {
					g.emit("%s[%d] = %s", o.n, k, g.expr(el, 1))
				}
			}
		}
		g.emit("%s := %s + %s", cc, an, bn)
		for k := 0; k < 1+g.ch(3); k++ {
			wide := mtype{kind: 0, bits: []int{a.typ.bits, 2 * a.typ.bits, a.typ.bits * a.typ.count, a.typ.bits * b.typ.count}[g.ch(4)]}
			w := g.fresh("w")
			g.emit("%s := (%s(%s) + %s(%s))", w, wide, ivs[g.ch(len(ivs))].name, wide, ivs[g.ch(len(ivs))].name)
			if wide.bits <= 24 && g.ch(2) == 0 {
				g.emit("%s = %s * %s", w, w, w)
			}
			g.vars = append(g.vars, mvar{name: w, typ: wide})
		}
		for r := 0; r < 1+g.ch(3); r++ {
			e := g.fresh("e")
			g.emit("%s := %s[%d]", e, cc, g.ch(a.typ.count+b.typ.count))
			g.vars = append(g.vars, mvar{name: e, typ: el})
		}
	case 17: // two slices of one array taken through a pointer, both read at the same computed index
		arrs := g.arrVars()
		ivs := g.intVars()
		if len(arrs) == 0 || len(ivs) == 0 {
			return
		}
		a := arrs[g.ch(len(arrs))]
		if a.typ.count != 4 && a.typ.count != 8 || a.name != "a" && a.name != "b" {
			return // (a pointer to a local array or to a struct member crashes the compiler in both modes)
		}
		el := mtype{kind: 0, bits: a.typ.bits}
		h := a.typ.count / 2
		pp, q, r := g.fresh("ptr"), g.fresh("lo"), g.fresh("hi")
		g.emit("%s := &%s", pp, a.name)
		g.emit("%s := %s[0:%d]", q, pp, h)
		g.emit("%s := %s[%d:%d]", r, pp, h, a.typ.count)
		idx := ivs[g.ch(len(ivs))].name
		x, y := g.fresh("e"), g.fresh("e")
		g.emit("%s := %s[uint32(%s) & uint32(%d)]", x, q, idx, h-1)
		g.emit("%s := %s[uint32(%s) & uint32(%d)]", y, r, idx, h-1)
		g.vars = append(g.vars, mvar{name: x, typ: el}, mvar{name: y, typ: el})
	case 15: // a copy of an array gets a constant element (directly or through a pointer); the
		// original is read at a computed index and dropped; a computed value as wide as the whole
		// array follows; then the copy is read
		arrs := g.arrVars()
		ivs := g.intVars()
		if len(arrs) == 0 || len(ivs) == 0 {
			return
		}
		a := arrs[g.ch(len(arrs))]
		if a.typ.bits*a.typ.count > 256 {
			return
		}
		el := mtype{kind: 0, bits: a.typ.bits}
		cp := g.fresh("cp")
		g.emit("%s := %s", cp, a.name)
		k := g.ch(a.typ.count)
		if g.ch(3) == 0 {
			fn := fmt.Sprintf("set%d", len(g.decls))
			g.decls = append(g.decls, fmt.Sprintf("func %s(ptr *%s) {\n\t*ptr = %s(%s)\n}\n", fn, el, el, g.constant(el)))
			g.emit("%s(&%s[%d])", fn, cp, k)
		} else {
			g.emit("%s[%d] = %s(%s)", cp, k, el, g.constant(el))
		}
		if iv := g.intVars(); len(iv) > 0 && (a.typ.count == 2 || a.typ.count == 4) && g.ch(3) != 0 {
			d := g.fresh("dyn")
			g.emit("%s := %s[uint32(%s) & uint32(%d)]", d, a.name, iv[g.ch(len(iv))].name, a.typ.count-1)
			g.vars = append(g.vars, mvar{name: d, typ: el})
		}
		wide := mtype{kind: 0, bits: a.typ.bits * a.typ.count}
		w := g.fresh("w")
		g.emit("%s := (%s(%s) + %s)", w, wide, ivs[g.ch(len(ivs))].name, g.expr(wide, 0)) // (not constant + constant: folding wide constants is not this property's business)
		if g.ch(2) == 0 && wide.bits <= 64 {
			// (a multiplication of a wider value by a constant crashes the compiler in both modes -
			// "Output already assigned" - which is not what this property is about)
			g.emit("%s = %s * %s(%s)", w, w, wide, g.constant(wide))
		}
		g.vars = append(g.vars, mvar{name: w, typ: wide})
		g.vars = append(g.vars, mvar{name: cp, typ: a.typ})
		for r := 0; r < 1+g.ch(2); r++ {
			e := g.fresh("e")
			g.emit("%s := %s[%d]", e, cp, g.ch(a.typ.count))
			g.vars = append(g.vars, mvar{name: e, typ: el})
		}
	case 14: // the same 32-bit constant pattern as a signed and as an unsigned wide value
		k := g.ch(3)
		sw := []int{64, 33, 64}[g.ch(3)]
		y, m := g.fresh("y"), g.fresh("m")
		ys, ms := mtype{kind: 1, bits: sw}, mtype{kind: 0, bits: sw}
		first, second := func() {
			g.emit("var %s %s", y, ys)
			g.emit("if %s {", g.boolExpr(1))
			g.emit("\t%s = %s", y, []string{"-1", "-2", "-2147483648"}[k])
			g.emit("} else {")
			g.emit("\t%s = %s", y, []string{"300", "1", "0"}[g.ch(3)])
			g.emit("}")
		}, func() {
			g.emit("var %s %s", m, ms)
			g.emit("if %s {", g.boolExpr(1))
			g.emit("\t%s = %s", m, []string{"0xffffffff", "0xfffffffe", "0x80000000"}[k])
			g.emit("} else {")
			g.emit("\t%s = %s", m, []string{"0xffff", "1", "0"}[g.ch(3)])
			g.emit("}")
		}
		if g.ch(2) == 0 {
			first, second = second, first
		}
		first()
		second()
		g.vars = append(g.vars, mvar{name: y, typ: ys}, mvar{name: m, typ: ms})
	case 0, 1, 2: // new variable
		ty := g.intType()
		name := g.fresh("v")
		g.emit("%s := %s", name, g.expr(ty, 2))
		g.vars = append(g.vars, mvar{name: name, typ: ty})
	case 3: // declared, maybe never assigned
		ty := g.intType()
		name := g.fresh("u")
		g.emit("var %s %s", name, ty)
		g.vars = append(g.vars, mvar{name: name, typ: ty})
	case 4: // reassignment
		iv := g.intVars()
		var w []mvar
		for _, v := range iv {
			if !v.ro {
				w = append(w, v)
			}
		}
		if len(w) > 0 {
			v := w[g.ch(len(w))]
			g.emit("%s = %s", v.name, g.expr(v.typ, 2))
		}
	case 5: // bool variable
		name := g.fresh("c")
		g.emit("%s := %s", name, g.boolExpr(1))
		g.vars = append(g.vars, mvar{name: name, typ: mtype{kind: 2}})
	case 6: // if/else assigning
		if depth > 0 {
			var w []mvar
			for _, v := range g.intVars() {
				if !v.ro {
					w = append(w, v)
				}
			}
			if len(w) == 0 {
				return
			}
			v := w[g.ch(len(w))]
			g.emit("if %s {", g.boolExpr(1))
			g.ind++
			g.emit("%s = %s", v.name, g.armValue(v.typ))
			if g.ch(2) == 0 {
				nv := len(g.vars)
				g.stmt(depth - 1)
				g.vars = g.vars[:nv]
			}
			g.ind--
			if g.ch(2) == 0 {
				g.emit("} else {")
				g.ind++
				g.emit("%s = %s", v.name, g.armValue(v.typ))
				g.ind--
			}
			g.emit("}")
		}
	case 7: // for loop: repeated instruction texts (circuit cache hits)
		if depth > 0 {
			var w []mvar
			for _, v := range g.intVars() {
				if !v.ro {
					w = append(w, v)
				}
			}
			if len(w) == 0 {
				return
			}
			v := w[g.ch(len(w))]
			i := g.fresh("i")
			g.emit("for %s := 0; %s < %d; %s++ {", i, i, 1+g.ch(5), i)
			g.ind++
			g.emit("%s = %s", v.name, g.expr(v.typ, 1))
			if arrs := g.arrVars(); len(arrs) > 0 && g.ch(2) == 0 {
				a := arrs[g.ch(len(arrs))]
				if !a.ro {
					g.emit("%s[%s %% %d] = uint%d(%s)", a.name, i, a.typ.count, a.typ.bits, v.name)
				}
			}
			g.ind--
			g.emit("}")
		}
	case 8: // new array
		ty := mtype{kind: 3, bits: []int{8, 16, 32, 4, 64}[g.ch(5)], count: 2 + g.ch(7)}
		name := g.fresh("arr")
		g.emit("var %s %s", name, ty)
		g.vars = append(g.vars, mvar{name: name, typ: ty})
		n := g.ch(ty.count + 1)
		for k := 0; k < n; k++ {
			g.emit("%s[%d] = %s", name, g.ch(ty.count), g.expr(mtype{kind: 0, bits: ty.bits}, 1))
		}
	case 9: // array update
		var w []mvar
		for _, a := range g.arrVars() {
			if !a.ro {
				w = append(w, a)
			}
		}
		if len(w) > 0 {
			a := w[g.ch(len(w))]
			g.emit("%s[%d] = %s", a.name, g.ch(a.typ.count), g.expr(mtype{kind: 0, bits: a.typ.bits}, 2))
		}
	case 10, 11: // aliasing chain: slice of an array, element, shift, cast; used later
		arrs := g.arrVars()
		if len(arrs) == 0 {
			return
		}
		a := arrs[g.ch(len(arrs))]
		from := g.ch(a.typ.count - 1)
		to := from + 1 + g.ch(a.typ.count-from-1)
		s := g.fresh("s")
		g.emit("%s := %s[%d:%d]", s, a.name, from, to)
		e := g.fresh("e")
		g.emit("%s := %s[%d] >> %d", e, s, g.ch(to-from), g.ch(a.typ.bits))
		g.vars = append(g.vars, mvar{name: e, typ: mtype{kind: 0, bits: a.typ.bits}})
		ty := g.intType()
		c := g.fresh("k")
		g.emit("%s := %s(%s << %d)", c, ty, e, g.ch(3))
		g.vars = append(g.vars, mvar{name: c, typ: ty})
		if g.ch(2) == 0 && !a.ro {
			// update the array the chain came from: the chain must keep its old wires
			g.emit("%s[%d] = %s", a.name, from, g.expr(mtype{kind: 0, bits: a.typ.bits}, 1))
		}
	case 12: // copy between arrays
		arrs := g.arrVars()
		if len(arrs) >= 2 {
			d := arrs[g.ch(len(arrs))]
			s := arrs[g.ch(len(arrs))]
			if d.name != s.name && d.typ.bits == s.typ.bits && !d.ro {
				g.emit("copy(%s[:], %s[:])", d.name, s.name)
			}
		}
	case 13: // fresh values in between so that recycled wire ids are handed out again
		ty := g.intType()
		for k := 0; k < 2+g.ch(3); k++ {
			name := g.fresh("t")
			g.emit("%s := %s", name, g.expr(ty, 1))
			if k == 0 || g.ch(2) == 0 {
				g.vars = append(g.vars, mvar{name: name, typ: ty})
			} else {
				g.emit("%s = %s + %s", g.vars[len(g.vars)-1].name, g.vars[len(g.vars)-1].name, fmt.Sprintf("%s(%s)", g.vars[len(g.vars)-1].typ, name))
			}
		}
	}
}

func (g *mgen) program() (string, [][]int) {
	var params []string
	probe := [][]int{{8}, {8}}
	for i, name := range []string{"a", "b"} {
		switch g.ch(7) {
		case 6: // struct argument: field updates alias the aggregate in streaming mode
			sn, fields, _ := g.newStruct()
			g.useStruct(name, fields, false)
			params = append(params, fmt.Sprintf("%s %s", name, sn))
		case 0: // array argument
			ty := mtype{kind: 3, bits: []int{8, 16, 32}[g.ch(3)], count: 2 + g.ch(7)}
			g.vars = append(g.vars, mvar{name: name, typ: ty, ro: g.ch(2) == 0})
			params = append(params, fmt.Sprintf("%s %s", name, ty))
		case 1: // unsized argument, instantiated from the input size
			bits := 4 + g.ch(28)
			probe[i] = []int{bits}
			kind := g.ch(2)
			params = append(params, fmt.Sprintf("%s %s", name, []string{"uint", "int"}[kind]))
			// it is used through a cast only (its width is not known to the generator)
			ty := g.intType()
			g.lines = append(g.lines, fmt.Sprintf("\t%s0 := %s(%s)", name, ty, name))
			g.vars = append(g.vars, mvar{name: name + "0", typ: ty})
		default:
			ty := g.intType()
			g.vars = append(g.vars, mvar{name: name, typ: ty, ro: g.ch(3) == 0})
			params = append(params, fmt.Sprintf("%s %s", name, ty))
		}
	}
	g.ind = 1
	if g.ch(4) == 0 { // local struct
		sn, fields, _ := g.newStruct()
		v := g.fresh("st")
		g.emit("var %s %s", v, sn)
		g.useStruct(v, fields, false)
	}
	n := 2 + g.ch(12)
	for i := 0; i < n; i++ {
		g.stmt(2)
		if len(g.structW) > 0 && g.ch(3) == 0 {
			// struct field update followed by a fresh value exactly as wide as
			// the whole struct (recycled wire ids of that width are handed out again)
			var fl []mvar
			for _, v := range g.vars {
				if strings.Contains(v.name, ".") && !v.ro {
					fl = append(fl, v)
				}
			}
			if len(fl) > 0 {
				f := fl[g.ch(len(fl))]
				g.emit("%s = %s", f.name, g.expr(f.typ, 1))
				w := g.structW[g.ch(len(g.structW))]
				ty := mtype{kind: 0, bits: w}
				name := g.fresh("w")
				g.emit("%s := %s", name, g.expr(ty, 1))
				g.vars = append(g.vars, mvar{name: name, typ: ty})
				if g.ch(2) == 0 {
					g.emit("%s = (%s * %s)", name, name, g.expr(ty, 0))
				}
			}
		}
	}
	nret := 1 + g.ch(3)
	var rtypes, rexprs []string
	for i := 0; i < nret; i++ {
		var ty mtype
		if g.ch(5) == 0 {
			ty = mtype{kind: 2}
		} else {
			ty = g.intType()
			// prefer returning something computed
			if iv := g.intVars(); len(iv) > 0 && g.ch(3) != 0 {
				ty = iv[len(iv)-1-g.ch(min(len(iv), 3))].typ
			}
		}
		rtypes = append(rtypes, ty.String())
		rexprs = append(rexprs, g.expr(ty, 2))
	}
	ret := rtypes[0]
	if nret > 1 {
		ret = "(" + strings.Join(rtypes, ", ") + ")"
	}
	src := "package main\n\n" + strings.Join(g.decls, "\n") + "\nfunc main(" + strings.Join(params, ", ") + ") " + ret + " {\n" +
		strings.Join(g.lines, "\n") + "\n\treturn " + strings.Join(rexprs, ", ") + "\n}\n"
	return src, probe
}

// large produces a program with more than 65535 live wires (large array
// arguments) so that the 32-bit wire-id encoding and the second 64Ki wire
// page are used, with few gates.
func (g *mgen) large() (string, [][]int) {
	if g.ch(10) == 0 {
		// a wide result: 65 to 82 thousand output bits (the list of result wires and the labels
		// that come back for them are each larger than any buffer between the parties)
		n := []int{2048, 2560, 2100}[g.ch(3)]
		k := []int{32, 8, 32, 16}[g.ch(4)]
		var b strings.Builder
		fmt.Fprintf(&b, "package main\n\nfunc main(a [%d]uint32, b uint%d) ([%d]uint32, uint%d) {\n", n, k, n, k)
		// (no loop over the array: every element update makes a new array value in the compiler,
		// 2560 of them cost gigabytes; one or two updates and the array itself as the result do)
		fmt.Fprintf(&b, "\tr := a\n")
		fmt.Fprintf(&b, "\tr[%d] = a[%d] ^ uint32(b)\n", g.ch(n), g.ch(n))
		if g.ch(2) == 0 {
			fmt.Fprintf(&b, "\tr[%d] = r[%d] + a[%d]\n", g.ch(n), g.ch(n), g.ch(n))
		}
		fmt.Fprintf(&b, "\treturn r, b + uint%d(a[%d])\n}\n", k, g.ch(n))
		return b.String(), [][]int{{8}, {8}}
	}
	if g.ch(2) == 0 {
		// the inputs end just around wire 65536, so that the first wires after
		// the inputs (constants, evaluator input, computed values) sit exactly
		// on the boundary between the 16-bit and the 32-bit wire-id encoding
		n := 2030 + g.ch(22)
		if g.ch(3) == 0 {
			n = 2049 + g.ch(600) // an argument that reaches well into the second 64Ki page of wires
		}
		k := []int{32, 64, 100, 150, 200, 230, 280, 17}[g.ch(8)]
		if g.ch(3) == 0 {
			k = 8 + g.ch(300)
		}
		var b strings.Builder
		fmt.Fprintf(&b, "package main\n\nfunc main(a [%d]uint32, b uint%d) (uint32, uint%d, uint%d) {\n", n, k, k, k)
		fmt.Fprintf(&b, "\tx := a[%d] + uint32(b)\n", g.ch(n))
		fmt.Fprintf(&b, "\ty := b + uint%d(a[%d])\n", k, g.ch(n))
		fmt.Fprintf(&b, "\tz := y + b\n")
		if k <= 64 {
			fmt.Fprintf(&b, "\tw := z * y\n")
		} else {
			fmt.Fprintf(&b, "\tw := z ^ (y << %d)\n", g.ch(9))
		}
		fmt.Fprintf(&b, "\tv := w + uint%d(x)\n", k)
		fmt.Fprintf(&b, "\treturn x + a[0], v, w - z\n}\n")
		return b.String(), [][]int{{8}, {8}}
	}
	n := 520 + g.ch(200)
	i1, i2, i3 := g.ch(n), g.ch(n), n-1-g.ch(3)
	from := g.ch(n - 10)
	var b strings.Builder
	fmt.Fprintf(&b, "package main\n\nfunc main(a [%d]uint64, b [%d]uint64) (uint64, uint32) {\n", n, n)
	fmt.Fprintf(&b, "\ts := b[%d:%d]\n", from, from+4+g.ch(5))
	fmt.Fprintf(&b, "\tx := a[%d] + s[%d]\n", i1, g.ch(4))
	fmt.Fprintf(&b, "\ty := (a[%d] ^ b[%d]) >> %d\n", i2, i3, g.ch(64))
	fmt.Fprintf(&b, "\tvar acc uint64\n")
	fmt.Fprintf(&b, "\tfor i := 0; i < %d; i++ {\n\t\tacc = acc + a[i + %d] & b[%d - i]\n\t}\n", 1+g.ch(4), g.ch(n-8), n-1)
	fmt.Fprintf(&b, "\tz := uint32(y << %d) + uint32(x)\n", g.ch(8))
	fmt.Fprintf(&b, "\treturn x ^ y ^ acc, z\n}\n")
	return b.String(), [][]int{{8}, {8}}
}
