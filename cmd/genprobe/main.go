// Command genprobe measures how often generated MPCL programs compile (developer tool).
package main

import (
	"fmt"
	"os"
	"sort"
	"strings"

	"github.com/markkurossi/mpc/circuit"
	"github.com/markkurossi/mpc/compiler"
	"github.com/markkurossi/mpc/compiler/utils"

	"verifsim/gen"
	"verifsim/sim/rt"
)

func main() {
	dn, _ := os.OpenFile(os.DevNull, os.O_WRONLY, 0)
	out := os.Stdout
	os.Stdout = dn
	errs := map[string]int{}
	examples := map[string]string{}
	ok := 0
	n := 300
	for i := 0; i < n; i++ {
		t := rt.NewTape(uint64(i) + 1000)
		src, probe := gen.MPCL(t)
		p := utils.NewParams()
		p.Warn.DisableAll()
		circ, err := func() (c *circuit.Circuit, err error) {
			defer func() {
				if r := recover(); r != nil {
					err = fmt.Errorf("PANIC: %v", r)
				}
			}()
			c, _, err = compiler.New(p).Compile(src, probe)
			return
		}()
		if err != nil {
			e := strings.SplitN(err.Error(), "\n", 2)[0]
			if j := strings.Index(e, ": "); j > 0 {
				e = e[j+2:]
			}
			if len(e) > 50 {
				e = e[:50]
			}
			errs[e]++
			examples[e] = src + "\n" + err.Error()
			continue
		}
		ok++
		if i < 3 {
			fmt.Fprintf(out, "%s\n-> %v\n", src, circ)
		}
	}
	fmt.Fprintf(out, "compiled %d of %d\n", ok, n)
	var ks []string
	for k := range errs {
		ks = append(ks, k)
	}
	sort.Slice(ks, func(i, j int) bool { return errs[ks[i]] > errs[ks[j]] })
	for _, k := range ks {
		fmt.Fprintf(out, "%4d %s\n", errs[k], k)
	}
	if len(os.Args) > 1 {
		for _, k := range ks {
			fmt.Fprintf(out, "=== %s\n%s\n", k, examples[k])
		}
	}
}
