// Command simworker links the (overlay-rewritten) repository with the
// simulator and executes simulated runs. It is built by every check from
// /repo's current working tree.
package main

import (
	"encoding/json"
	"flag"
	"fmt"
	"io"
	"os"
	"strings"
	"time"

	"verifsim/worlds/core"
	"verifsim/worlds/runner"

	_ "verifsim/worlds/all"
)

func main() {
	if len(os.Args) < 2 {
		fmt.Fprintln(os.Stderr, "usage: simworker search|replay|hashes|shrink ...")
		os.Exit(2)
	}
	// The code under test prints progress with fmt.Printf; keep stdout clean.
	realOut := os.Stdout
	if dn, err := os.OpenFile(os.DevNull, os.O_WRONLY, 0); err == nil {
		os.Stdout = dn
	}
	fs := flag.NewFlagSet(os.Args[1], flag.ExitOnError)
	prop := fs.String("prop", "", "property id")
	tier := fs.String("tier", "quick", "tier")
	seed := fs.Uint64("seed", 1, "VERIF_SEED")
	worker := fs.Int("worker", 0, "worker number")
	workers := fs.Int("workers", 1, "number of workers")
	budget := fs.Duration("budget", 10*time.Second, "time budget")
	maxRuns := fs.Int("maxruns", 0, "highest run index + 1 (0 = unlimited)")
	from := fs.Int("from", 0, "first index (hashes)")
	to := fs.Int("to", 10, "last index + 1 (hashes)")
	in := fs.String("in", "", "input failure/replay file")
	out := fs.String("out", "", "output file")
	known := fs.String("known", "", "comma separated known-finding keys")
	trace := fs.Bool("trace", false, "record readable trace")
	startIdx := fs.Int("start", 0, "first run index (resume)")
	progress := fs.String("progress", "", "file that receives the index about to be executed")
	fs.Parse(os.Args[2:])

	ks := runner.KnownSet{}
	for _, k := range strings.Split(*known, "\x1f") {
		if k != "" {
			ks[k] = true
		}
	}
	emit := func(v any) {
		b, _ := json.Marshal(v)
		if *out != "" {
			if err := os.WriteFile(*out, b, 0o644); err != nil {
				fmt.Fprintln(os.Stderr, err)
				os.Exit(2)
			}
		} else {
			realOut.Write(append(b, '\n'))
		}
	}
	switch os.Args[1] {
	case "child":
		h := core.Child(*prop)
		if h == nil {
			fmt.Fprintln(os.Stderr, "no child handler for", *prop)
			os.Exit(2)
		}
		in, _ := io.ReadAll(os.Stdin)
		realOut.Write(h(in))
	case "search":
		emit(runner.SearchFrom(*prop, *tier, *seed, *worker, *workers, *budget, *maxRuns, ks, *startIdx, *progress, func(s *runner.Summary) { emit(s) }))
	case "hashes":
		runner.Hashes(*prop, *tier, *seed, *from, *to, func(l string) { fmt.Fprintln(realOut, l) })
	case "shrink":
		rec, err := runner.ReadFail(*in)
		if err != nil {
			fmt.Fprintln(os.Stderr, err)
			os.Exit(2)
		}
		emit(runner.Shrink(rec, *budget, ks))
	case "replay":
		rec, err := runner.ReadFail(*in)
		if err != nil {
			fmt.Fprintln(os.Stderr, err)
			os.Exit(2)
		}
		res := runner.Replay(rec, *trace)
		type replayOut struct {
			Failed       bool
			Clause       string
			Key          string
			Detail       string
			Hash         string
			Outcome      string
			Trace        []string `json:",omitempty"`
			Inconclusive string
		}
		ro := replayOut{Hash: res.Hash, Outcome: res.Outcome, Trace: res.Trace, Inconclusive: res.Inconclusive}
		if res.Fail != nil {
			ro.Failed, ro.Clause, ro.Key, ro.Detail = true, res.Fail.Clause, res.Fail.Key, res.Fail.Detail
		}
		emit(ro)
	default:
		fmt.Fprintln(os.Stderr, "unknown subcommand")
		os.Exit(2)
	}
}
