// Command racecomp is the race-detector companion of the C17 check: it runs
// the same tape-generated operation lists as the simulated world, but on real
// goroutines with the real sync and sync/atomic packages, built with -race.
// The detector is happens-before based, so its verdict does not depend on the
// timing of a particular execution, although the execution is not replayable.
package main

import (
	"flag"
	"fmt"
	"os"
	"sync"

	"verifsim/sim/rt"
	"verifsim/sim/simrand"
	"verifsim/worlds/runner"
	"verifsim/worlds/sharedcirc/ops"
)

func main() {
	seed := flag.Uint64("seed", 1, "VERIF_SEED")
	from := flag.Int("from", 0, "first plan index")
	to := flag.Int("to", 100, "last plan index + 1")
	flag.Parse()
	violations := 0
	for idx := *from; idx < *to; idx++ {
		rs := runner.RunSeed(*seed, "C17-race", idx)
		t := rt.NewTape(rs)
		p := ops.Draw(t)
		shared := ops.CloneCircuit(p.Circ)
		var wg sync.WaitGroup
		start := make(chan struct{})
		results := make([]*ops.Result, len(p.Tasks))
		for i := range p.Tasks {
			wg.Add(1)
			go func(i int) {
				defer wg.Done()
				<-start
				results[i] = ops.Exec(p, shared, i, simrand.New(rs, fmt.Sprintf("task-%d", i)))
			}(i)
		}
		close(start)
		wg.Wait()
		for _, r := range results {
			if r.Violation != "" {
				fmt.Printf("plan %d: %s: %s\n", idx, r.Clause, r.Violation)
				violations++
			}
		}
	}
	fmt.Printf("racecomp: %d plans executed on real goroutines, %d oracle violations\n", *to-*from, violations)
	if violations > 0 {
		os.Exit(1)
	}
}
