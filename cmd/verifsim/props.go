package main

import "time"

var stdAssumptions = []string{
	"package time, connection deadlines and runtime.NumCPU/GOMAXPROCS of the library packages are the simulator's (virtual clock that advances only when no task can run; per-party CPU count drawn from the tape): on the unchanged tree nothing depends on them, a change that adds a time-out or splits work by the CPU count is decided by the tape",
	"the simulator's models of goroutine scheduling, sync, channels and TCP (about 1500 lines in /verif/sim) produce only behaviours the real runtime and network can produce, and switch tasks at every synchronisation and I/O point",
	"the overlay rewriter (go statements, channels, sync, sync/atomic, net, crypto/rand -> simulator equivalents) preserves the semantics of the rewritten sources",
	"a clean batch is evidence for the sampled schedules, inputs and faults, not a proof",
}

// expectedReach lists, per property, the reach counters that a healthy run of
// the check should see above zero; those at zero are reported as blind spots.
var expectedReach = map[string][]string{
	"C17": {"pool.reuse", "pool.miss-with-items", "pool.drop", "garblings-compared-with-run-alone"},
	"C08": {"map.range", "map.range.permuted", "job.separate-process", "job.reused-compiler-with-history", "job.same-program-twice-on-one-instance", "job.history-with-other-tuning-parameters"},
	"C14": {"roundtrip.mpclc", "roundtrip.bristol", "file>4KiB", "rejected-with-error", "accepted-well-formed", "discarded: declared size above one million"},
	"C04": {"whole-circuit.transcripts-scanned", "streaming.transcripts-scanned", "sha2pc.transcripts-scanned", "tamper.ot-request-rewritten"},
	"C18": {"curve.P-256", "curve.P-224", "curve.P-384", "mixing.rejected", "mixing.other-curve", "mixing.sizes-compared", "mutation.rejected", "mutation.still-decodes", "round3.other-length-refused"},
	"C10": {"parties=2", "parties=3", "parties=4", "parties=5", "circuit.compiled-for-GMW", "circuit.and-levels>3", "triples.checked-words", "cond.wakeup", "knob.gmw.lowWaterMark"},
	"C05": {"program.generated", "program.corpus", "wires>65535"},
	"C20": {"scenario.vole.Mul", "vole.multi-chunk", "vole.repeated-mul-on-one-instance"},
	"C15": {"sender-aborted-on-tampering", "honest-accepted", "accepted-with-intact-correlation(unselected column or padding row or response-only)", "mode.cot-session", "cot-sender-aborted-on-tampering"},
	"C06": {"kind.CO", "kind.RSA-1024", "kind.COT", "kind.COT-malicious", "kind.ROT", "kind.ROT-malicious", "batch.n%8!=0", "batch.n%64!=0,n>64", "batch.multi-chunk", "batch.repeated-on-one-instance"},
	"C16": {"outcome.garbler-error", "outcome.session-stalled-then-aborted:garbler-error", "outcome.garbler-correct-despite-corruption", "mode.whole-circuit", "mode.streaming"},
	"C02": {"pipe.short-reads", "pipe.writer-blocked", "pipe.one-byte-reads", "ot.CO", "ot.COT", "ot.COT-malicious", "ot.RSA-1024", "circuit.multi-output", "circuit.compiled-from-mpcl"},
	"C19": {"net.data-before-accept", "net.backlog>1", "mutex.contended", "cond.wakeup"},
	"C11": {"pipe.short-reads", "pipe.writer-blocked", "pipe.reader-blocked", "pipe.one-byte-reads", "knobs.small-buffers", "pipe.empty-reads", "fault.write-error-reported-by-close", "fault.write-error-reported-by-send-or-flush"},
}

var props = map[string]propCfg{
	"C17": {
		Variant: "c17", Quick: 20 * time.Second, Thorough: 8 * time.Minute, Level: "exploration", RaceCompanion: true,
		Rule:        "one case = one generated circuit (up to 120 gates) shared by 2..6 tasks, each with a tape-generated list of up to 11 operations Garble/Eval/Compute/Release/ReleaseAgain on two garbling slots (garblings are held across other tasks' garblings), its own inputs, key size (16/24/32) and DRBG stream; scheduling points: the Load/CompareAndSwap on the lazily created pool, every Pool.Get/Put (the simulated pool returns any pooled scratch or a new one and may drop items) and the loop heads inside Garble, Eval and Compute (build variant c17); oracle: garbled evaluation and Compute equal the truth table, every output label is one of the wire's two labels, a held garbling is bit-identical until released, double release is harmless, no panic, and every garbling (R, all wire labels, all table rows) is bit-identical to the one the same call list produces when run alone on a fresh copy; a companion pass runs the same operation lists on real goroutines under the race detector; non-trivial = more than 2 task switches; distinct = distinct SHA-256 of the event log",
		Components:  map[string]string{"circuit.Garble/Eval/Compute/Release, garbleScratchPool": "real code (sync, sync/atomic rewritten, yields inserted at loop heads)", "sync.Pool, atomic.Pointer, scheduler": "simulator", "race companion": "real goroutines, real sync/atomic, go build -race (not a deterministic replay)"},
		Assumptions: append([]string{"data-race freedom is judged by the Go race detector (happens-before based) on the same operation lists executed by real goroutines; that sub-check is not replayable"}, stdAssumptions...),
	},
	"C08": {
		Variant: "c08", Quick: 30 * time.Second, Thorough: 12 * time.Minute, Level: "exploration", DetSample: 12,
		Rule:        "one case = one program (crafted programs importing 3-4 library packages with package-level variables and constants, or generated import-set programs with 1..5 imports of such packages, 3/8; testsuite and example programs 3/8; generated MPCL programs 2/8) and one parameter set (prune on/off, Yao/GMW), compiled in 2..3 jobs: every `range` over a map in the compile path (compiler, ast, ssa, circuits, utils, mpa, types, circuit; build variant c08) iterates in a tape-chosen order (canonical, reversed, rotated, shuffled), each job after a tape-chosen history (0..3 earlier compilations of other programs, a third of them on their own Compiler with other tuning parameters - multiplier threshold, prune, target - and half of those of the program itself; one reused compiler.Compiler value or fresh ones; one shared or fresh Params; the program itself twice on one instance), and 1/4 of the cases run the last job in a separate worker process; oracle: Circuit.Marshal bytes, MarshalBristol bytes, SSA listing and input/output description identical across the jobs; non-trivial = at least one map range was permuted; distinct = distinct SHA-256 of the event log (program, artefact hashes, map-order decisions)",
		Components:  map[string]string{"compiler, ast, ssa, circuits, mpa, types, circuit.Marshal*": "real code (map ranges rewritten to the simulator's permuting iterator)", "map iteration order, process boundary": "simulator / child worker process"},
		Assumptions: append([]string{"map iteration orders are permutations of a canonical key order; maps with pointer keys cannot be ordered canonically and keep Go's native order (counted in reach counter map.range.unsortable-key)"}, stdAssumptions...),
	},
	"C14": {
		Quick: 20 * time.Second, Thorough: 8 * time.Minute, Level: "fault_enumeration",
		Rule:        "one case = (a) round trip: a generated circuit with a rich I/O signature (empty/long/odd names, int/uint/bool/array/struct types with compound members, headers above 4 KiB) written in mpclc or Bristol format to the simulated disk (write, sync, crash), read back through a reader with tape-chosen read sizes (whole, 1 byte, random, at most k around 4096), parsed, compared (gates, counts, signature, sampled truth tables) and written again (same bytes); or (b) damaged file: 100..1000 faults on a valid file - a window of consecutive truncation lengths and single-bit flips, byte flips biased to the header, extension by records of another valid file / a copy of an own gate record / random bytes, splices from another valid file, count/length fields set to boundary values, double faults - each parsed under recover with the property's precondition (declared sizes <= 10^6, checked by the harness's own scan) and judged: error, or a circuit whose gate inputs are defined before use, all wires assigned, NumGates == len(Gates); panic and hang (20 s wall clock, the only time-based verdict) are violations; non-trivial = every case; distinct = distinct SHA-256 of the event log",
		Components:  map[string]string{"circuit.Marshal/MarshalBristol/ParseMPCLC/ParseBristol, types.Parse": "real code", "storage and readers": "simulated disk with short-reading readers (simdisk)", "reference": "harness signature comparison, truth-table evaluator, own format scan for the precondition"},
		Assumptions: stdAssumptions,
	},
	"C04": {
		Quick: 30 * time.Second, Thorough: 10 * time.Minute, Level: "exploration", DetSample: 12,
		Rule:        "one case = one seeded session whose complete garbler->evaluator byte stream is recorded by the simulated pipe (whole-circuit mode 4/8: generated circuits, all OT kinds; streaming mode 3/8: corpus and generated MPCL programs) or the encoded Round 1 + Round 3 messages of a sha2pc run (1/8); the offset R is learned from the wires handed to the OT layer (all must agree) or, for sha2pc, by differential replay of the identical run with one garbler input bit flipped; the monitor builds the set of all 16-byte windows at every byte offset and reports R itself or two windows differing by R; non-trivial = every scanned transcript; distinct = distinct SHA-256 of the event log",
		Components:  map[string]string{"circuit.Garbler/Evaluator, compiler.Stream/StreamEvaluator, sha2pc rounds and encodings, ot.*, p2p.Conn": "real code", "transport and transcript recording": "simulated pipe", "randomness": "seeded DRBG (labels behave like random 128-bit strings; the chance of an accidental hit is about |W|^2/2^128)"},
		Assumptions: stdAssumptions,
	},
	"C18": {
		Quick: 30 * time.Second, Thorough: 12 * time.Minute, Level: "fault_enumeration", DetSample: 10,
		Rule:        "one case = one seeded scenario on a curve in {P-256 (most), P-224, P-384, P-521}: (a) the four-round protocol between a garbler process and an evaluator process (tasks) that persist session and received messages on a simulated disk, exchange encoded messages over a simulated pipe and crash/restart (only the disk survives, fresh randomness) at any subset of the five round boundaries - the 32 subsets are sampled uniformly from the fault stream; (b) two independent sessions with every cross-feeding of messages/sessions/curves and replayed rounds; (c) 40..200 mutations (bit flip, truncation, extension, splice, 32-bit boundary values) of the five encodings, decodable results followed through the next round function; oracle: digest == crypto/sha256(a xor b), encode(decode(x)) == x, equal lengths across sessions of a curve, round-3 length enforced, foreign pieces never yield a digest, no panic; non-trivial = every case; distinct = distinct SHA-256 of the event log",
		Components:  map[string]string{"sha2pc rounds and encodings, circuit.Garble/Eval, ot.co_helpers": "real code", "process boundary, disk, transport": "simulated (tasks, simdisk, simnet pipe with own framing)", "reference": "crypto/sha256"},
		Assumptions: stdAssumptions,
	},
	"C10": {
		Variant: "stmt", Quick: 55 * time.Second, Thorough: 12 * time.Minute, Level: "exploration", DetSample: 8,
		Rule:        "one case = one seeded GMW session of N in 2..5 parties on the simulated network: circuit generated (XOR/XNOR/AND/INV, 1..12-bit inputs, up to 300 gates, AND-heavy shapes with many levels and batch sizes not multiple of 64) or compiled from a small N-party MPCL program for the GMW target; inputs zero/ones/single-bit/random; a harness Pool.Get(n) with n in {1,63,64,65,100,127,129,1000,4095,4097} at every party before Run; in half of the cases the triple pool's tuning knobs are set (low-water mark 0..8 words, batches of 64..512 triples; build-time knobs of the overlay, default = the shipped 4096 words / 4096 / 8192 triples) so that the producer/consumer refill protocol runs in every session; start delays before Join, Connect and Run, dial latency, socket capacity, fragmentation, latency and every interleaving decision of the parties' main, accept, triple-producer and connection-writer tasks from the tape; oracle = truth-table evaluation and the triple relation on every bit; non-trivial = more than 4 task switches; distinct = distinct SHA-256 of the event log",
		Components:  map[string]string{"gmw.Network/TriplePool/Peer, p2p.Conn, ot.CO, ot.IKNP SendBits/ReceiveBits": "real code (rewritten go/chan/sync/net/crypto-rand)", "TCP": "simulated (simnet)", "crypto/rand": "per-party seeded DRBG", "reference": "harness truth-table evaluator"},
		Assumptions: stdAssumptions,
	},
	"C05": {
		Quick: 30 * time.Second, Thorough: 12 * time.Minute, Level: "exploration",
		Rule:        "one case = one seeded streaming session compiler.Stream vs circuit.StreamEvaluator over two p2p.Conn on a simulated pipe; program drawn from testsuite/lang + examples (1/4) or from the MPCL generator (typed straight-line/branching/loop programs over arithmetic, comparisons, constant shifts, casts, arrays, slices, array updates, copy, unsized main arguments instantiated from input sizes, declared-but-unassigned variables, aliasing chains; 1/12 of them with >65535 live wires); inputs zero/ones/random; OT in {CO, COT, COT-malicious}; capacity, fragmentation, latency, schedule from the tape; oracle differential: garbler == evaluator (values and output types) == whole compiled circuit evaluated by the harness truth-table evaluator; programs that do not compile or have unsupported argument types are discarded and counted; non-trivial = more than 2 task switches; distinct = distinct SHA-256 of the event log",
		Components:  map[string]string{"compiler (parse, SSA, Stream), ssa.Program.Stream, circuit.StreamEvaluator/stream_garble, p2p.Conn, ot.*": "real code", "reference": "compiler.Compile of the same source (real code) evaluated by the harness truth-table evaluator", "transport": "simulated pipe"},
		Assumptions: stdAssumptions,
	},
	"C20": {
		Quick: 20 * time.Second, Thorough: 8 * time.Minute, Level: "exploration",
		Rule:        "one case = one seeded two-task session over p2p.Conn on a simulated pipe: vole.NewSender/NewReceiver + 1..3 Mul calls (vector lengths from {1,2,7..9,63..65,511..513,1023..1025,2000,random<=2000}; moduli P-256 prime, 2^255-19, 2^256-189, P-224 prime, 2, 3, 65537, random odd <=256 bits; elements 0, 1, p-1, random), or 1..6 bmr.FxSend/FxReceive or FxkSend/FxkReceive over CO/COT/COT-malicious for all (a,b) and random/zero strings; capacity, fragmentation, latency and schedule from the tape; oracle = math/big reference; non-trivial = more than 2 task switches; distinct = distinct SHA-256 of the event log",
		Components:  map[string]string{"vole.Sender/Receiver.Mul, bmr.Fx*/Fxk*, ot.IKNP/CO/COT, p2p.Conn": "real code", "IKNP base OTs": "real Chou-Orlandi in 1/3 of vole runs, stub otherwise", "transport": "simulated pipe; in a fifth of the cases the library's p2p.Pipe / ot.NewPipe (real code) over the simulator's io.Pipe (simpipe)"},
		Assumptions: stdAssumptions,
	},
	"C15": {
		Quick: 20 * time.Second, Thorough: 8 * time.Minute, Level: "fault_enumeration",
		Rule:        "one case = one IKNP instance (sender task, receiver task, message-level ot.IO) serving 8..47 malicious-mode trials, each with a batch size from {1,2,7,8,9,15..17,63..65,127..129,511..513,600,1024,1025}, a choice vector and a tampering plan from the fault stream: honest; one bit (column,row) of the payload extension matrix; one bit of the 256-row check batch; 2..8 simultaneous flips; alteration of seed2/x/t0/t1 alone or with a flip; oracle: honest never aborts, acceptance implies recv = sent xor choice*Delta for the receiver's original choices; one case in five instead runs a pair of ot.COT instances created with malicious=true through 1..4 Send/Receive batches with the alterations in the last batch (oracle: abort, or every label the receiver holds is the one its original choice selects); non-trivial = every case; distinct = distinct SHA-256 of the event log",
		Components:  map[string]string{"ot.IKNPSender.Send / IKNPReceiver.Receive (malicious), gf128, mul128": "real code", "base OTs": "stub (both labels in clear) in 15/16 of the cases, real Chou-Orlandi otherwise", "transport + tamperer": "message-level ot.IO of the simulator (simio)"},
		Assumptions: stdAssumptions,
	},
	"C06": {
		Quick: 25 * time.Second, Thorough: 10 * time.Minute, Level: "exploration",
		Rule:        "one case = one seeded sender/receiver session: scenario in {ot.OT Send/Receive for CO, RSA-1024, COT, COT-malicious, ROT, ROT-malicious (shared and non-shared, Init repeated on shared instances); raw IKNP label form (semi-honest and malicious); raw IKNP packed-bit form; pure Chou-Orlandi helpers on P-224/P-256/P-384}, 1..4 consecutive batches on one instance with sizes from {1..9, 15..17, 63..65, 127..129, 255..257, 511..513, 1023..1025, 1535..1537, 2047..2049, random<=2100}, choice vectors all-0/all-1/alternating/last-only/random, transport p2p.Conn on a simulated pipe (capacity, fragmentation, latency) or a message-level ot.IO, schedule from the tape; non-trivial = more than 2 task switches; distinct = distinct SHA-256 of the event log",
		Components:  map[string]string{"ot.CO/RSA/COT/ROT/IKNP/MITCCRH, co_helpers, p2p.Conn": "real code", "IKNP base OTs": "real Chou-Orlandi in a share of runs, otherwise a stub that sends both labels in clear (simio.ClearOT)", "ot.NewSender/NewReceiver, ot.NewCOSender/NewCOReceiver (step-by-step transfers)": "real code, messages carried by the harness", "transport": "simulated pipe, message-level ot.IO, or the library's ot.NewPipe (real code) over the simulator's io.Pipe (simpipe)", "crypto/rand": "seeded DRBG"},
		Assumptions: stdAssumptions,
	},
	"C16": {
		Quick: 25 * time.Second, Thorough: 10 * time.Minute, Level: "fault_enumeration", MemLimitMB: 6144,
		Rule:        "one case = one clean reference session plus 4..11 corrupted sessions of the same circuit, inputs and randomness (whole-circuit and streaming mode), each with a corruption plan drawn from the fault stream: 1..4 faults, direction G->E or E->G, byte offset (head-, tail- and uniformly-biased) within the clean transcript, single-bit/0xff/random-mask flip, arithmetic rewrite of the clean byte (zero, minus one, halved) or 2..41-byte burst, a third of the cases as a window of 16..48 consecutive offsets; a stalled session has both sockets closed by the simulator and the parties run on; the corrupted sessions run on a simulated machine granting single allocations up to 8x the clean session's largest; the garbler's outcome must be error, stall/abort or the truth-table result; non-trivial = at least one fault fired; distinct = distinct SHA-256 over the event logs of all sessions of the case",
		Components:  map[string]string{"circuit.Garbler/Evaluator, compiler Stream/StreamEvaluator, p2p.Conn, ot.*": "real code", "transport + corruption": "simulated pipe with fault plan", "reference": "harness truth-table evaluator"},
		Assumptions: append([]string{"workers run under an address-space limit; a worker killed by it (a corrupted count made the code under test allocate gigabytes) counts as an aborted session for that one trial"}, stdAssumptions...),
	},
	"C02": {
		Quick: 25 * time.Second, Thorough: 10 * time.Minute, Level: "exploration",
		Rule:        "one case = one seeded two-party session circuit.Garbler vs circuit.Evaluator over two p2p.Conn on a simulated pipe: generated circuit (1..24-bit inputs, one case in ten with a 0-bit argument for one party, 1..4 outputs of width 1..17, 0..400 gates of all five kinds, fan-out, same wire twice, INV-only/XNOR-heavy/OR-heavy shapes), inputs (zero/ones/single-bit/random), OT in {CO, COT, COT-malicious, RSA-1024, RSA-2048(thorough)}, per-direction capacity (0=rendezvous..unbounded), fragmentation, latency and the schedule of the 4 tasks from the tape; oracle = harness truth-table evaluator; non-trivial = more than 2 task switches; distinct = distinct SHA-256 of the event log (decisions, transport events, payload bytes)",
		Components:  map[string]string{"circuit.Garbler/Evaluator/Garble/Eval, p2p.Conn, ot.CO/COT/RSA/IKNP": "real code", "transport": "simulated pipe; one plain session in eight over the library's p2p.Pipe (real code) on the simulator's io.Pipe (simpipe)", "crypto/rand": "seeded AES-CTR DRBG per party", "reference": "harness truth-table evaluator (gen.Eval)"},
		Assumptions: stdAssumptions,
	},
	"C19": {
		Variant: "stmt", Quick: 20 * time.Second, Thorough: 8 * time.Minute, Level: "exploration",
		Rule:        "one case = one seeded run of p2p.Create/Join/Connect for N in 2..6 parties and k in 1..4 connections per pair on the simulated network: start delays before Join and before Connect, dial latency, socket capacity, fragmentation and every interleaving decision of the parties' main, accept and connection-writer tasks at lock, condition, channel and socket operations come from the tape; non-trivial = more than 4 task switches; distinct = distinct SHA-256 of the run's event log",
		Components:  map[string]string{"p2p.Network, p2p.Peer, p2p.Conn": "real code (rewritten go/chan/sync/net)", "TCP listen/dial/accept": "simulated (simnet: backlog, dial succeeds before accept)", "scheduler, mutex, cond": "simulator"},
		Assumptions: stdAssumptions,
	},
	"C11": {
		Quick: 20 * time.Second, Thorough: 8 * time.Minute, Level: "exploration",
		Rule:        "one case = one seeded run of two p2p.Conn over a simulated pipe: typed send sequences per direction (0..40 ops, payload sizes around 0/16/64Ki/1Mi/3Mi), flush placement, per-direction capacity (0=rendezvous..unbounded), read fragmentation (1 byte..whole), latency and the schedule of the 8 tasks all drawn from the tape; a third of the cases shrink the connection's buffers through build-time knobs of the overlay (write buffers of 16..4096 bytes, 1..5 of them, read window of 16..65536 bytes; default = the shipped 64 KiB x 3 / 1 MiB); one case in six is a fault case: one Write of A's transport fails once at a tape-chosen offset without moving anything and the only clause is that A is told by some Send*/Flush or by Close; non-trivial = at least one operation and more than 2 task switches; distinct = distinct SHA-256 of the run's event log (every scheduling decision, transport event and payload byte)",
		Components:  map[string]string{"p2p.Conn (incl. writer goroutine, buffer ring)": "real code (rewritten go/chan/atomic)", "transport": "simulated pipe (simnet); p2p.Pipe (real code) over the simulator's io.Pipe in a sixth of the fault-free cases; p2p.Network-made Conns in a fifth", "goroutine scheduling, channels": "simulator", "receiver model": "FIFO of typed values (harness)"},
		Assumptions: stdAssumptions,
	},
}
