package main

import (
	"bytes"
	"encoding/json"
	"flag"
	"fmt"
	"os"
	"os/exec"
	"path/filepath"
	"sort"
	"strconv"
	"strings"
	"sync"
	"syscall"
	"time"

	"verifsim/rewrite"
)

// propCfg is the static configuration of a property's check.
type propCfg struct {
	Variant       string
	Quick         time.Duration // search budget per worker
	Thorough      time.Duration
	Level         string
	Rule          string
	Components    map[string]string // which components ran real code and which a stub
	Assumptions   []string
	MemLimitMB    int  // address-space limit per worker (0 = none)
	RaceCompanion bool // C17: also run the operation lists on real goroutines under -race
	DetSample     int
}

var verifDir = func() string {
	if d := os.Getenv("VERIF_DIR"); d != "" {
		return d
	}
	return "/verif"
}()

type finding struct {
	Property string `json:"property"`
	Status   string `json:"status"` // "known" or "fixed"
	Key      string `json:"key,omitempty"`
	Commit   string `json:"commit,omitempty"`
	What     string `json:"what"`
}

func loadFindings() []finding {
	b, err := os.ReadFile(filepath.Join(verifDir, "known_findings.json"))
	if err != nil {
		return nil
	}
	var f struct {
		Findings []finding `json:"findings"`
	}
	if err := json.Unmarshal(b, &f); err != nil {
		fatal2("known_findings.json: %v", err)
	}
	return f.Findings
}

// scratchDir is removed on every exit path (build output must not pile up).
var scratchDir string

func fatal2(format string, args ...any) {
	fmt.Fprintf(os.Stderr, "verifsim: "+format+"\n", args...)
	if scratchDir != "" {
		os.RemoveAll(scratchDir)
	}
	os.Exit(2)
}

type summary struct {
	Runs         int
	Discards     int
	Inconclusive map[string]int
	Fail         json.RawMessage
	Known        map[string]int
	Hashes       []string
	Reach        map[string]int
	Faults       map[string]int
	Classes      map[string]int
	Outcomes     map[string]int
	Steps        int64
	Switches     int64
	SimTimeNs    int64
	MaxTasks     int
	Samples      []any
	WallS        float64
	NextIdx      int
	fails        []json.RawMessage
}

// transientDeath recognises a worker killed by a momentary shortage of
// operating-system resources (not by the code under test and not by the
// harness): the run is resumed instead of failing the whole check.
func transientDeath(stderr []byte) bool {
	for _, pat := range []string{"failed to create new OS thread", "resource temporarily unavailable", "Resource temporarily unavailable", "fork/exec", "errno=11", "cannot allocate memory", "newosproc"} {
		if bytes.Contains(stderr, []byte(pat)) {
			return true
		}
	}
	return false
}

func newSummary() *summary {
	return &summary{Inconclusive: map[string]int{}, Known: map[string]int{}, Reach: map[string]int{}, Faults: map[string]int{}, Classes: map[string]int{}, Outcomes: map[string]int{}}
}

func mergeSummary(tot, s *summary) {
	tot.Runs += s.Runs
	tot.Discards += s.Discards
	tot.Steps += s.Steps
	tot.Switches += s.Switches
	tot.SimTimeNs += s.SimTimeNs
	if s.MaxTasks > tot.MaxTasks {
		tot.MaxTasks = s.MaxTasks
	}
	addMap(tot.Inconclusive, s.Inconclusive)
	addMap(tot.Known, s.Known)
	addMap(tot.Reach, s.Reach)
	addMap(tot.Faults, s.Faults)
	addMap(tot.Classes, s.Classes)
	addMap(tot.Outcomes, s.Outcomes)
	tot.Hashes = append(tot.Hashes, s.Hashes...)
	if len(tot.Samples) < 4 {
		tot.Samples = append(tot.Samples, s.Samples...)
	}
	if len(s.Fail) > 0 && string(s.Fail) != "null" {
		tot.fails = append(tot.fails, s.Fail)
	}
	tot.fails = append(tot.fails, s.fails...)
}

type failRec struct {
	Property       string              `json:"property"`
	Tier           string              `json:"tier"`
	Variant        string              `json:"variant,omitempty"`
	Seed           uint64              `json:"seed"`
	Index          int                 `json:"run_index"`
	RunSeed        uint64              `json:"run_seed"`
	Tape           map[string][]uint32 `json:"tape"`
	ProcStart      int                 `json:"found_in_process_started_at_run"`
	ProcStep       int                 `json:"found_in_process_run_step"`
	ProcessHistory []int               `json:"process_history,omitempty"`
	Clause         string              `json:"clause"`
	Key            string              `json:"key,omitempty"`
	Detail         string              `json:"detail"`
	Hash           string              `json:"event_log_hash"`
	Sample         any                 `json:"case,omitempty"`
	Trace          []string            `json:"trace,omitempty"`
	Shrunk         any                 `json:"shrink,omitempty"`
	Replay         string              `json:"replay_cmd,omitempty"`
}

type replayOut struct {
	Failed       bool
	Clause       string
	Key          string
	Detail       string
	Hash         string
	Outcome      string
	Trace        []string
	Inconclusive string
}

// buildWorker rewrites the current /repo tree and builds the worker binary.
func imin(a, b int) int {
	if a < b {
		return a
	}
	return b
}

// headTail keeps the beginning (the reason) and the end of a dead worker's stderr.
func headTail(b []byte, h, t int) string {
	if len(b) <= h+t {
		return string(b)
	}
	return string(b[:h]) + "\n...\n" + string(b[len(b)-t:])
}

func buildWorker(scratch, variant string) (string, *rewrite.Stats) {
	var lastOut []byte
	var lastErr error
	// second attempt without the tuning knobs: a change to the tree may use such a constant in
	// a way the knob rewrite cannot follow; the check then runs with the shipped values only
	for _, noKnobs := range []bool{false, true} {
		ov, st, err := rewrite.Run(rewrite.Options{Repo: repoDir(), Out: scratch, GoBin: goBin(), Variant: variant, Env: goEnv(), NoKnobs: noKnobs})
		if err != nil {
			fatal2("rewrite failed (exit 2, not a verdict): %v", err)
		}
		bin := filepath.Join(scratch, "simworker")
		cmd := exec.Command(goBin(), append(append([]string{"build"}, modfileArgs(scratch)...), "-overlay", ov, "-o", bin, "./cmd/simworker")...)
		cmd.Dir = verifDir
		cmd.Env = append(os.Environ(), goEnv()...)
		out, err := cmd.CombinedOutput()
		if err == nil {
			if noKnobs {
				fmt.Printf("verifsim: the build with tuning knobs failed; built without them (shipped constants only):\n%s\n", headTail(lastOut, 600, 0))
			}
			return bin, st
		}
		lastOut, lastErr = out, err
		if st.Knobs == 0 {
			break
		}
	}
	fatal2("building the worker from /repo's working tree failed (exit 2, not a verdict): %v\n%s", lastErr, lastOut)
	return "", nil
}

// modfileArgs: with VERIF_REPO set (a scratch worktree of the repository under
// test, used by the sensitivity sweeps so that /repo stays untouched) the build
// uses a copy of the harness's go.mod whose replace directive points there.
func modfileArgs(scratch string) []string {
	if repoDir() == "/repo" {
		return nil
	}
	b, err := os.ReadFile(filepath.Join(verifDir, "go.mod"))
	if err != nil {
		fatal2("go.mod: %v", err)
	}
	mod := strings.Replace(string(b), "=> /repo", "=> "+repoDir(), 1)
	os.MkdirAll(scratch, 0o755)
	mf := filepath.Join(scratch, "go.mod")
	if err := os.WriteFile(mf, []byte(mod), 0o644); err != nil {
		fatal2("go.mod: %v", err)
	}
	if sum, err := os.ReadFile(filepath.Join(verifDir, "go.sum")); err == nil {
		os.WriteFile(filepath.Join(scratch, "go.sum"), sum, 0o644)
	}
	return []string{"-modfile=" + mf}
}

// workerProcs is the GOMAXPROCS of search workers (VERIF_WORKER_PROCS overrides).
func workerProcs() string {
	if v := os.Getenv("VERIF_WORKER_PROCS"); v != "" {
		return v
	}
	return "2"
}

func runWorker(bin string, memMB int, env []string, args ...string) ([]byte, []byte, error) {
	var cmd *exec.Cmd
	if memMB == 0 {
		memMB = 16384 // backstop for every worker: the sandbox has no memory limit of its own
	}
	if memMB > 0 {
		sh := fmt.Sprintf("ulimit -v %d; exec \"$0\" \"$@\"", memMB*1024)
		cmd = exec.Command("/bin/sh", append([]string{"-c", sh, bin}, args...)...)
	} else {
		cmd = exec.Command(bin, args...)
	}
	cmd.Env = append(os.Environ(), env...)
	cmd.SysProcAttr = &syscall.SysProcAttr{Pdeathsig: syscall.SIGKILL} // no orphans if the orchestrator is killed
	var so, se bytes.Buffer
	cmd.Stdout = &so
	cmd.Stderr = &se
	err := cmd.Run()
	return so.Bytes(), se.Bytes(), err
}

func cmdCheck(args []string) {
	fs := flag.NewFlagSet("check", flag.ExitOnError)
	prop := fs.String("prop", "", "property id")
	tier := fs.String("tier", "quick", "quick|thorough")
	budgetOverride := fs.Duration("budget", 0, "override search budget")
	workersFlag := fs.Int("workers", 16, "worker processes")
	noEvidence := fs.Bool("no-evidence", false, "do not write the evidence file")
	fs.Parse(args)
	if t := os.Getenv("VERIF_TIER"); t == "quick" || t == "thorough" {
		*tier = t
	}
	cfg, ok := props[*prop]
	if !ok {
		fatal2("unknown property %q", *prop)
	}
	if v, set := os.LookupEnv("VERIF_VARIANT"); set {
		cfg.Variant = v // debugging aid: build the worker with another rewriter variant
	}
	seed := uint64(1)
	if s := os.Getenv("VERIF_SEED"); s != "" {
		v, err := strconv.ParseInt(s, 0, 64)
		if err != nil {
			fatal2("bad VERIF_SEED %q", s)
		}
		seed = uint64(v)
	}
	fmt.Printf("verifsim: property=%s tier=%s VERIF_SEED=%d\n", *prop, *tier, seed)
	start := time.Now()

	scratch := filepath.Join(verifDir, "build", fmt.Sprintf("%s-%d", *prop, os.Getpid()))
	os.RemoveAll(scratch)
	scratchDir = scratch
	defer os.RemoveAll(scratch)
	exit := func(code int) {
		os.RemoveAll(scratch)
		os.Exit(code)
	}
	bin, rst := buildWorker(scratch, cfg.Variant)
	fmt.Printf("verifsim: overlay from %s: %d packages, %d files rewritten (%d imports, %d go statements, %d channel operations, %d dynamic makes, %d map ranges, %d loop and %d statement yields, %d tuning knobs); build %.1fs\n",
		repoDir(), rst.Packages, rst.Files, rst.Imports, rst.GoStmts, rst.ChanOps, rst.Makes, rst.MapRanges, rst.LoopYields, rst.StmtYields, rst.Knobs, time.Since(start).Seconds())

	// known findings of this property
	var knownKeys []string
	var known []finding
	for _, f := range loadFindings() {
		if f.Property == *prop && f.Status == "known" {
			known = append(known, f)
			knownKeys = append(knownKeys, f.Key)
		}
	}
	knownArg := strings.Join(knownKeys, "\x1f")

	// determinism sample: same indices, separate processes, different GOMAXPROCS
	detN := cfg.DetSample
	if detN == 0 {
		detN = 20
	}
	var detOut [3][]byte
	var wg sync.WaitGroup
	for i, procs := range []string{"1", "4", "16"} {
		wg.Add(1)
		go func(i int, procs string) {
			defer wg.Done()
			var so []byte
			retries := 0
			for from := 0; from < detN; {
				part, se, err := runWorker(bin, cfg.MemLimitMB, []string{"GOMAXPROCS=" + procs}, "hashes", "-prop", *prop, "-tier", *tier, "-seed", fmt.Sprint(seed), "-from", fmt.Sprint(from), "-to", fmt.Sprint(detN))
				so = append(so, part...)
				if err == nil {
					break
				}
				if cfg.MemLimitMB > 0 && (bytes.Contains(se, []byte("out of memory")) || bytes.Contains(se, []byte("cannot allocate"))) {
					// the run after the last reported index hit the address-space limit
					done := bytes.Count(part, []byte("\n"))
					so = append(so, []byte(fmt.Sprintf("%d killed-by-memory-limit\n", from+done))...)
					from += done + 1
					continue
				}
				if transientDeath(se) && retries < 3 {
					retries++
					so = nil
					from = 0
					time.Sleep(2 * time.Second)
					continue
				}
				fmt.Fprintf(os.Stderr, "determinism sample worker failed: %v\n%s\n", err, tail(se, 4000))
				so = nil
				break
			}
			detOut[i] = so
		}(i, procs)
	}
	wg.Wait()
	if len(detOut[0]) == 0 || !bytes.Equal(detOut[0], detOut[1]) || !bytes.Equal(detOut[0], detOut[2]) {
		fmt.Fprintf(os.Stderr, "verifsim: determinism sample FAILED: event-log hashes differ between processes (GOMAXPROCS 1/4/16). A simulator that does not replay is not believed: exit 2.\n--- 1:\n%s--- 4:\n%s--- 16:\n%s", detOut[0], detOut[1], detOut[2])
		exit(2)
	}
	fmt.Printf("verifsim: determinism sample ok: %d runs x 3 processes (GOMAXPROCS 1/4/16) gave identical event-log hashes\n", detN)

	budget := cfg.Quick
	if *tier == "thorough" {
		budget = cfg.Thorough
	}
	if *budgetOverride > 0 {
		budget = *budgetOverride
	}
	workers := *workersFlag
	sums := make([]*summary, workers)
	crashes := make([]string, workers)
	for k := 0; k < workers; k++ {
		wg.Add(1)
		go func(k int) {
			defer wg.Done()
			deadline := time.Now().Add(budget)
			startIdx := k
			transient := 0
			acc := newSummary()
			for attempt := 0; ; attempt++ {
				outFile := filepath.Join(scratch, fmt.Sprintf("sum-%d-%d.json", k, attempt))
				progFile := filepath.Join(scratch, fmt.Sprintf("prog-%d.txt", k))
				args := []string{"search", "-prop", *prop, "-tier", *tier, "-seed", fmt.Sprint(seed),
					"-worker", fmt.Sprint(k), "-workers", fmt.Sprint(workers), "-budget", time.Until(deadline).String(), "-known", knownArg, "-out", outFile, "-start", fmt.Sprint(startIdx)}
				if cfg.MemLimitMB > 0 {
					args = append(args, "-progress", progFile)
				}
				// the simulation runs one task at a time: a small GOMAXPROCS keeps 16 workers
				// from needing hundreds of OS threads on a loaded machine (the determinism
				// sample above has shown the hashes do not depend on it)
				_, se, err := runWorker(bin, cfg.MemLimitMB, []string{"GOMAXPROCS=" + workerProcs()}, args...)
				var s summary
				if b, rerr := os.ReadFile(outFile); rerr == nil {
					if jerr := json.Unmarshal(b, &s); jerr != nil && err == nil {
						crashes[k] = fmt.Sprintf("worker %d: bad summary: %v", k, jerr)
						return
					}
				} else if err == nil {
					crashes[k] = fmt.Sprintf("worker %d: %v", k, rerr)
					return
				}
				mergeSummary(acc, &s)
				if err == nil {
					break
				}
				// the worker died
				if (transientDeath(se) || cfg.MemLimitMB == 0 && bytes.Contains(se, []byte("out of memory"))) && transient < 6 && s.NextIdx >= 0 {
					// the machine ran out of threads, processes or memory for a moment:
					// resume after the last flushed summary (nothing is counted twice)
					transient++
					acc.Reach["harness.worker-resumed-after-transient-resource-failure"]++
					if s.NextIdx > startIdx {
						startIdx = s.NextIdx
					}
					time.Sleep(time.Duration(2<<transient) * time.Second)
					if time.Until(deadline) < time.Second {
						break
					}
					continue
				}
				if cfg.MemLimitMB == 0 || attempt > 2000 {
					crashes[k] = fmt.Sprintf("worker %d: %v\n%s", k, err, headTail(se, 3000, 5000))
					return
				}
				pb, perr := os.ReadFile(progFile)
				died, aerr := strconv.Atoi(strings.TrimSpace(string(pb)))
				if perr != nil || aerr != nil || !bytes.Contains(se, []byte("out of memory")) && !bytes.Contains(se, []byte("cannot allocate")) {
					crashes[k] = fmt.Sprintf("worker %d died for a reason other than the address-space limit: %v\n%s", k, err, headTail(se, 3000, 5000))
					return
				}
				acc.Reach["harness.worker-killed-by-memory-limit(trial counted as aborted session)"]++
				acc.Runs++
				startIdx = died + workers
				if time.Until(deadline) < time.Second {
					break
				}
			}
			s := *acc
			sums[k] = &s
		}(k)
	}
	wg.Wait()
	for _, c := range crashes {
		if c != "" {
			fmt.Fprintf(os.Stderr, "verifsim: a worker died outside a simulated verdict (harness trouble, exit 2):\n%s\n", c)
			exit(2)
		}
	}

	// aggregate
	tot := newSummary()
	hashes := map[string]bool{}
	var fails []*failRec
	for _, s := range sums {
		mergeSummary(tot, s)
		for _, h := range s.Hashes {
			hashes[h] = true
		}
	}
	for _, raw := range tot.fails {
		var fr failRec
		if err := json.Unmarshal(raw, &fr); err != nil {
			fatal2("bad failure record: %v", err)
		}
		fails = append(fails, &fr)
	}
	if len(tot.Samples) > 4 {
		tot.Samples = tot.Samples[:4]
	}
	searchWall := time.Since(start).Seconds()
	fmt.Printf("verifsim: %d simulated runs (%d discarded, %d inconclusive), %d distinct non-trivial event-log hashes, %d scheduling points, %d task switches, %.1f s simulated time, %.0f runs/hour\n",
		tot.Runs, tot.Discards, sumMap(tot.Inconclusive), len(hashes), tot.Steps, tot.Switches, float64(tot.SimTimeNs)/1e9, float64(tot.Runs)/searchWall*3600)

	violations := 0
	var replayPath string
	if len(fails) > 0 {
		sort.Slice(fails, func(i, j int) bool { return fails[i].Index < fails[j].Index })
		fr := fails[0]
		fr.Variant = cfg.Variant
		fmt.Printf("verifsim: run %d violates clause %q: %s\n", fr.Index, fr.Clause, firstLine(fr.Detail))
		// shrink in a worker process
		inFile := filepath.Join(scratch, "fail.json")
		minFile := filepath.Join(scratch, "min.json")
		writeJSON(inFile, fr)
		shrinkBudget := 60 * time.Second
		if *tier == "thorough" {
			shrinkBudget = 240 * time.Second
		}
		_, se, err := runWorker(bin, cfg.MemLimitMB, nil, "shrink", "-in", inFile, "-out", minFile, "-budget", shrinkBudget.String(), "-known", knownArg)
		min := fr
		if err != nil {
			fmt.Fprintf(os.Stderr, "verifsim: shrinking failed (%v), reporting the unshrunk tape\n%s\n", err, tail(se, 2000))
			minFile = inFile
		} else {
			var m failRec
			b, _ := os.ReadFile(minFile)
			if json.Unmarshal(b, &m) == nil {
				min = &m
			}
		}
		// fresh-process replay, twice, must fail the same way with the same hash
		var r [2]replayOut
		for i := range r {
			so, se, err := runWorker(bin, cfg.MemLimitMB, []string{"GOMAXPROCS=" + []string{"16", "2"}[i]}, "replay", "-in", minFile, "-trace")
			if err != nil {
				if cfg.MemLimitMB > 0 {
					// worker death under the address-space limit: not a verdict
					fmt.Fprintf(os.Stderr, "verifsim: replay worker died (%v): %s\n", err, tail(se, 2000))
				}
				fatal2("replay worker failed: %v\n%s", err, tail(se, 4000))
			}
			if err := json.Unmarshal(so, &r[i]); err != nil {
				fatal2("bad replay output: %v", err)
			}
		}
		same := func() bool {
			return r[0].Failed && r[1].Failed && r[0].Clause == min.Clause && r[1].Clause == min.Clause && r[0].Hash == r[1].Hash
		}
		if !same() {
			// The tape alone does not fail in a fresh process: the code under test may
			// keep state across runs of one process. Replay the failing run after the
			// runs its worker process had executed before it, then drop as many of
			// those as the failure allows.
			histFile := filepath.Join(scratch, "hist.json")
			replayHist := func(hist []int, out *[2]replayOut, n int) bool {
				h := *fr
				h.ProcessHistory = hist
				writeJSON(histFile, &h)
				for i := 0; i < n; i++ {
					so, _, err := runWorker(bin, cfg.MemLimitMB, []string{"GOMAXPROCS=" + []string{"16", "2"}[i]}, "replay", "-in", histFile, "-trace")
					if err != nil || json.Unmarshal(so, &out[i]) != nil {
						return false
					}
					if !out[i].Failed || out[i].Clause != fr.Clause {
						return false
					}
				}
				return n < 2 || out[0].Hash == out[1].Hash
			}
			var hist []int
			var rh [2]replayOut
			if !replayHist(nil, &rh, 2) && fr.ProcStep > 0 {
				for i := fr.ProcStart; i < fr.Index; i += fr.ProcStep {
					hist = append(hist, i)
				}
			}
			if replayHist(hist, &rh, 2) {
				full := len(hist)
				deadline := time.Now().Add(shrinkBudget)
				for chunk := (len(hist) + 1) / 2; chunk >= 1 && time.Now().Before(deadline); {
					removed := false
					for at := 0; at < len(hist) && time.Now().Before(deadline); {
						cand := append(append([]int(nil), hist[:at]...), hist[imin(at+chunk, len(hist)):]...)
						var tmp [2]replayOut
						if replayHist(cand, &tmp, 1) {
							hist = cand
							removed = true
						} else {
							at += chunk
						}
					}
					if chunk == 1 && !removed {
						break
					}
					if chunk > 1 {
						chunk = (chunk + 1) / 2
					}
				}
				if replayHist(hist, &rh, 2) {
					h := *fr
					h.ProcessHistory = hist
					min = &h
					r = rh
					if len(hist) == 0 {
						fmt.Printf("verifsim: the minimised tape does not fail in a fresh process (the code under test keeps state across the runs of the shrinking process); the unshrunk tape does and is reported\n")
					} else {
						fmt.Printf("verifsim: the failing run passes in a fresh process and fails after earlier runs of the same process: state survives between runs; process history minimised from %d to %d runs %v\n", full, len(hist), hist)
					}
				}
			}
		}
		if !same() {
			fmt.Fprintf(os.Stderr, "verifsim: the failure did not reproduce identically in fresh processes (failed=%v/%v clause=%q/%q hash=%s/%s): not reported as a violation, exit 2\n",
				r[0].Failed, r[1].Failed, r[0].Clause, r[1].Clause, r[0].Hash, r[1].Hash)
			exit(2)
		}
		min.Trace = r[0].Trace
		if len(min.Trace) > 4000 {
			min.Trace = append(min.Trace[:2000:2000], append([]string{"..."}, min.Trace[len(min.Trace)-2000:]...)...)
		}
		min.Detail = r[0].Detail
		min.Hash = r[0].Hash
		os.MkdirAll(filepath.Join(verifDir, "replays"), 0o755)
		replayPath = filepath.Join(verifDir, "replays", fmt.Sprintf("%s-%s.json", *prop, min.Hash[:12]))
		min.Replay = fmt.Sprintf("cd %s && bin/check --replay %s", verifDir, replayPath)
		writeJSON(replayPath, min)
		violations = 1
		fmt.Printf("verifsim: minimised (%v) and reproduced twice in fresh processes, event-log hash %s\n", jsonStr(min.Shrunk), min.Hash)
		fmt.Printf("verifsim: clause %q: %s\n", min.Clause, min.Detail)
	}

	// C17 companion: the same operation lists on real goroutines under the race detector
	raceInfo := map[string]any{}
	if cfg.RaceCompanion && violations == 0 {
		rbin := filepath.Join(scratch, "racecomp")
		cmd := exec.Command(goBin(), append(append([]string{"build"}, modfileArgs(scratch)...), "-race", "-o", rbin, "./cmd/racecomp")...)
		cmd.Dir = verifDir
		cmd.Env = append(os.Environ(), goEnv()...)
		if out, err := cmd.CombinedOutput(); err != nil {
			fatal2("building the race companion failed (exit 2, not a verdict): %v\n%s", err, out)
		}
		plans := 400
		if *tier == "thorough" {
			plans = 6000
		}
		procs := 8
		per := plans / procs
		type rres struct {
			out  []byte
			code int
		}
		rr := make([]rres, procs)
		var wg2 sync.WaitGroup
		for i := 0; i < procs; i++ {
			wg2.Add(1)
			go func(i int) {
				defer wg2.Done()
				c := exec.Command(rbin, "-seed", fmt.Sprint(seed), "-from", fmt.Sprint(i*per), "-to", fmt.Sprint((i+1)*per))
				c.Env = append(os.Environ(), "GORACE=exitcode=66 halt_on_error=1", "GOMAXPROCS=16")
				out, err := c.CombinedOutput()
				rr[i].out = out
				if err != nil {
					rr[i].code = 1
					if ee, ok := err.(*exec.ExitError); ok {
						rr[i].code = ee.ExitCode()
					}
				}
			}(i)
		}
		wg2.Wait()
		raceInfo["plans_on_real_goroutines"] = per * procs
		raceInfo["note"] = "happens-before race detector on the same tape-generated operation lists; not a deterministic replay"
		for i, r := range rr {
			if r.code == 0 {
				continue
			}
			if r.code != 66 && r.code != 1 {
				fatal2("race companion failed with exit code %d:\n%s", r.code, tail(r.out, 3000))
			}
			clause := "data-race"
			if r.code == 1 {
				clause = "oracle-violated-on-real-goroutines"
			}
			os.MkdirAll(filepath.Join(verifDir, "replays"), 0o755)
			replayPath = filepath.Join(verifDir, "replays", fmt.Sprintf("%s-race-%d-%d.json", *prop, seed, i*per))
			writeJSON(replayPath, map[string]any{
				"property": *prop, "clause": clause, "seed": seed, "plans": []int{i * per, (i + 1) * per},
				"replay_cmd": fmt.Sprintf("cd %s && go build -race -o /tmp/racecomp ./cmd/racecomp && GORACE='exitcode=66 halt_on_error=1' /tmp/racecomp -seed %d -from %d -to %d", verifDir, seed, i*per, (i+1)*per),
				"note":       "not a deterministic replay: the race detector is happens-before based, so the report is stable across schedules although the execution is not",
				"report":     tail(r.out, 6000),
			})
			fmt.Printf("verifsim: race companion: clause %q\n%s\n", clause, tail(r.out, 2500))
			violations = 1
			break
		}
		if violations == 0 {
			fmt.Printf("verifsim: race companion: %d operation-list plans on real goroutines under the race detector: no race, no oracle violation\n", per*procs)
		}
	}

	for _, f := range known {
		fmt.Printf("KNOWN-FINDING: property=%s %s (observed in %d runs of this check)\n", *prop, f.What, tot.Known[f.Key])
	}

	if !*noEvidence {
		wall := time.Since(start).Seconds()
		samples := tot.Samples
		if len(samples) == 0 {
			samples = []any{"no sample recorded"}
		}
		cov := map[string]any{
			"evaluations":         tot.Runs,
			"distinct_nontrivial": len(hashes),
			"rule":                cfg.Rule,
			"samples":             samples,
			"runs_per_hour":       int(float64(tot.Runs) / searchWall * 3600),
			"seeds_per_hour":      int(float64(tot.Runs) / searchWall * 3600),
			"simulated_time_s":    float64(tot.SimTimeNs) / 1e9,
			"scheduling_points":   tot.Steps,
			"task_switches":       tot.Switches,
			"max_tasks_in_a_run":  tot.MaxTasks,
			"faults_fired":        tot.Faults,
			"reach_counters":      tot.Reach,
			"run_classes":         tot.Classes,
			"outcomes":            tot.Outcomes,
			"discarded":           tot.Discards,
			"inconclusive":        tot.Inconclusive,
			"components":          cfg.Components,
			"determinism_sample":  fmt.Sprintf("%d runs x 3 processes (GOMAXPROCS 1/4/16): identical event-log hashes", detN),
			"known_findings_seen": tot.Known,
			"overlay":             fmt.Sprintf("%d files rewritten from the working tree (variant %q)", rst.Files, cfg.Variant),
			"workers":             workers,
		}
		if len(raceInfo) > 0 {
			cov["race_companion"] = raceInfo
		}
		if blind := blindSpots(*prop, tot.Reach); len(blind) > 0 {
			cov["blind_spots_reach_counters_at_zero"] = blind
		}
		ev := map[string]any{
			"property_id": *prop,
			"tier":        *tier,
			"seed":        int64(seed),
			"level":       cfg.Level,
			"coverage":    cov,
			"assumptions": cfg.Assumptions,
			"wall_s":      wall,
			"violations":  violations,
		}
		os.MkdirAll(filepath.Join(verifDir, "evidence"), 0o755)
		writeJSON(filepath.Join(verifDir, "evidence", *prop+".json"), ev)
	}
	if sumMap(tot.Inconclusive) > tot.Runs/2 && tot.Runs > 0 {
		fmt.Fprintf(os.Stderr, "verifsim: more than half of the runs were inconclusive (%v): exit 2\n", tot.Inconclusive)
		exit(2)
	}
	if tot.Runs == 0 {
		fmt.Fprintf(os.Stderr, "verifsim: no run executed: exit 2\n")
		exit(2)
	}
	if violations > 0 {
		fmt.Printf("VIOLATION property=%s replay=%s\n", *prop, replayPath)
		exit(1)
	}
	fmt.Printf("verifsim: property %s held on everything explored (%.1fs)\n", *prop, time.Since(start).Seconds())
	exit(0)
}

func blindSpots(prop string, reach map[string]int) []string {
	var out []string
	for _, k := range expectedReach[prop] {
		if reach[k] == 0 {
			out = append(out, k)
		}
	}
	return out
}

func cmdReplay(args []string) {
	fs := flag.NewFlagSet("replay", flag.ExitOnError)
	trace := fs.Bool("trace", false, "print the readable trace")
	fs.Parse(args)
	if fs.NArg() != 1 {
		fatal2("usage: verifsim replay [-trace] <file>")
	}
	path := fs.Arg(0)
	b, err := os.ReadFile(path)
	if err != nil {
		fatal2("%v", err)
	}
	var fr failRec
	if err := json.Unmarshal(b, &fr); err != nil {
		fatal2("%v", err)
	}
	cfg := props[fr.Property]
	scratch := filepath.Join(verifDir, "build", fmt.Sprintf("replay-%d", os.Getpid()))
	defer os.RemoveAll(scratch)
	bin, _ := buildWorker(scratch, fr.Variant)
	a := []string{"replay", "-in", path}
	if *trace {
		a = append(a, "-trace")
	}
	so, se, err := runWorker(bin, cfg.MemLimitMB, nil, a...)
	if err != nil {
		os.RemoveAll(scratch)
		fatal2("replay worker failed: %v\n%s", err, tail(se, 4000))
	}
	var r replayOut
	json.Unmarshal(so, &r)
	fmt.Printf("replay: property %s, clause recorded %q, case: %s\n", fr.Property, fr.Clause, jsonStr(fr.Sample))
	for _, l := range r.Trace {
		fmt.Println(l)
	}
	fmt.Printf("replay: outcome=%s event-log hash=%s (recorded %s)\n", r.Outcome, r.Hash, fr.Hash)
	if r.Failed {
		fmt.Printf("replay: clause %q: %s\n", r.Clause, r.Detail)
		fmt.Printf("VIOLATION property=%s replay=%s\n", fr.Property, path)
		os.RemoveAll(scratch)
		os.Exit(1)
	}
	fmt.Printf("replay: the property held in this execution\n")
}

func addMap(dst, src map[string]int) {
	for k, v := range src {
		dst[k] += v
	}
}

func sumMap(m map[string]int) int {
	n := 0
	for _, v := range m {
		n += v
	}
	return n
}

func tail(b []byte, n int) string {
	if len(b) > n {
		b = b[len(b)-n:]
	}
	return string(b)
}

func firstLine(s string) string {
	if i := strings.IndexByte(s, '\n'); i >= 0 {
		return s[:i]
	}
	return s
}

func writeJSON(path string, v any) {
	b, err := json.MarshalIndent(v, "", " ")
	if err != nil {
		fatal2("%v", err)
	}
	if err := os.WriteFile(path, b, 0o644); err != nil {
		fatal2("%v", err)
	}
}

func jsonStr(v any) string {
	b, _ := json.Marshal(v)
	return string(b)
}
