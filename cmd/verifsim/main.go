// Command verifsim is the orchestrator of the deterministic-simulation
// checks: it rewrites the current /repo tree into an overlay, builds the
// worker, runs seeded searches, shrinks and replays failures and writes
// evidence. It does not link the repository itself.
package main

import (
	"fmt"
	"os"
)

func main() {
	if len(os.Args) < 2 {
		usage()
	}
	switch os.Args[1] {
	case "rewrite":
		cmdRewrite(os.Args[2:])
	case "check":
		cmdCheck(os.Args[2:])
	case "replay":
		cmdReplay(os.Args[2:])
	case "build":
		// verifsim build <property> <dir>: build the property's worker into <dir> (debugging aid)
		if len(os.Args) != 4 {
			usage()
		}
		cfg, ok := props[os.Args[2]]
		if !ok {
			usage()
		}
		bin, _ := buildWorker(os.Args[3], cfg.Variant)
		fmt.Println(bin)
	case "selftest":
		cmdSelftest(os.Args[2:])
	default:
		usage()
	}
}

func usage() {
	fmt.Fprintln(os.Stderr, "usage: verifsim rewrite|check|replay|selftest|build ...")
	os.Exit(2)
}
