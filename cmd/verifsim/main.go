// Command verifsim is the orchestrator of the deterministic-simulation
// checks: it rewrites the current /repo tree into an overlay, builds the
// worker, runs seeded searches, shrinks and replays failures and writes
// evidence. It does not link the repository itself.
package main

import (
	"fmt"
	"os"
)

func main() {
	if len(os.Args) < 2 {
		usage()
	}
	switch os.Args[1] {
	case "rewrite":
		cmdRewrite(os.Args[2:])
	case "check":
		cmdCheck(os.Args[2:])
	case "replay":
		cmdReplay(os.Args[2:])
	case "selftest":
		cmdSelftest(os.Args[2:])
	default:
		usage()
	}
}

func usage() {
	fmt.Fprintln(os.Stderr, "usage: verifsim rewrite|check|replay|selftest ...")
	os.Exit(2)
}
