package main

import (
	"bytes"
	"flag"
	"fmt"
	"os"
	"path/filepath"
	"sort"
	"strings"
	"sync"
)

// cmdSelftest runs the determinism self-test at scale: for every property,
// N run indices are executed in several separate processes under GOMAXPROCS
// 1, 4 and 16 with different VERIF seeds, and a sample of indices is executed
// alone in a fresh process and compared with the same index executed as the
// k-th run of a batch (state leaking from one run into the next would show).
func cmdSelftest(args []string) {
	fs := flag.NewFlagSet("selftest", flag.ExitOnError)
	n := fs.Int("n", 40, "run indices per property and seed")
	seeds := fs.Int("seeds", 2, "number of VERIF_SEED values")
	only := fs.String("props", "", "comma separated property ids (default all)")
	fs.Parse(args)
	var ids []string
	for id := range props {
		if *only == "" || strings.Contains(","+*only+",", ","+id+",") {
			ids = append(ids, id)
		}
	}
	sort.Strings(ids)
	bad := 0
	built := map[string]string{}
	for _, id := range ids {
		cfg := props[id]
		bin, ok := built[cfg.Variant]
		if !ok {
			scratch := filepath.Join(verifDir, "build", fmt.Sprintf("selftest-%s-%d", cfg.Variant, os.Getpid()))
			defer os.RemoveAll(scratch)
			bin, _ = buildWorker(scratch, cfg.Variant)
			built[cfg.Variant] = bin
		}
		for s := 1; s <= *seeds; s++ {
			outs := make([][]byte, 4)
			var wg sync.WaitGroup
			for i, procs := range []string{"1", "4", "16", "16"} {
				wg.Add(1)
				go func(i int, procs string) {
					defer wg.Done()
					var so []byte
					for from := 0; from < *n; {
						part, se, err := runWorker(bin, cfg.MemLimitMB, []string{"GOMAXPROCS=" + procs}, "hashes", "-prop", id, "-seed", fmt.Sprint(s*7919), "-from", fmt.Sprint(from), "-to", fmt.Sprint(*n))
						so = append(so, part...)
						if err == nil {
							break
						}
						if cfg.MemLimitMB > 0 && (bytes.Contains(se, []byte("out of memory")) || bytes.Contains(se, []byte("cannot allocate"))) {
							done := bytes.Count(part, []byte("\n"))
							so = append(so, []byte(fmt.Sprintf("%d killed-by-memory-limit\n", from+done))...)
							from += done + 1
							continue
						}
						so = append(so, []byte("WORKER FAILED: "+err.Error()+"\n"+tail(se, 500))...)
						break
					}
					outs[i] = so
				}(i, procs)
			}
			wg.Wait()
			same := bytes.Equal(outs[0], outs[1]) && bytes.Equal(outs[0], outs[2]) && bytes.Equal(outs[0], outs[3]) && len(outs[0]) > 0 && !bytes.Contains(outs[0], []byte("WORKER FAILED"))
			// alone vs in batch
			lines := strings.Split(strings.TrimSpace(string(outs[0])), "\n")
			aloneOK := true
			for _, k := range []int{*n - 1, *n / 2, *n / 3, 1} {
				if k < 0 || k >= len(lines) {
					continue
				}
				so, _, err := runWorker(bin, cfg.MemLimitMB, nil, "hashes", "-prop", id, "-seed", fmt.Sprint(s*7919), "-from", fmt.Sprint(k), "-to", fmt.Sprint(k+1))
				if err != nil && cfg.MemLimitMB > 0 {
					continue
				}
				if strings.TrimSpace(string(so)) != lines[k] {
					aloneOK = false
					fmt.Printf("  %s seed %d index %d: alone %q vs in batch %q\n", id, s*7919, k, strings.TrimSpace(string(so)), lines[k])
				}
			}
			status := "ok"
			if !same || !aloneOK {
				status = "NONDETERMINISTIC"
				bad++
			}
			fmt.Printf("selftest determinism %s seed=%d: %d indices x 4 processes (GOMAXPROCS 1/4/16/16) identical=%v, alone-vs-batch identical=%v: %s\n", id, s*7919, *n, same, aloneOK, status)
			if !same {
				for i := range outs {
					os.WriteFile(filepath.Join(verifDir, "build", fmt.Sprintf("selftest-%s-%d-%d.txt", id, s, i)), outs[i], 0o644)
				}
			}
		}
	}
	if bad > 0 {
		os.Exit(2)
	}
}
