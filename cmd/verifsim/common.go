package main

import (
	"flag"
	"fmt"
	"os"

	"verifsim/rewrite"
)

const goBinDefault = "/root/go/pkg/mod/golang.org/toolchain@v0.0.1-go1.25.0.linux-amd64/bin/go"

func goBin() string {
	if g := os.Getenv("VERIF_GO"); g != "" {
		return g
	}
	return goBinDefault
}

func goEnv() []string {
	return []string{"GOFLAGS=-mod=mod", "GOPROXY=off", "GOSUMDB=off", "GOTOOLCHAIN=local", "GONOSUMDB=*", "GONOSUMCHECK=1"}
}

func repoDir() string {
	if r := os.Getenv("VERIF_REPO"); r != "" {
		return r
	}
	return "/repo"
}

func cmdRewrite(args []string) {
	fs := flag.NewFlagSet("rewrite", flag.ExitOnError)
	out := fs.String("out", "", "scratch directory")
	variant := fs.String("variant", "", "build variant (c08, c17)")
	fs.Parse(args)
	if *out == "" {
		fmt.Fprintln(os.Stderr, "-out required")
		os.Exit(2)
	}
	ov, st, err := rewrite.Run(rewrite.Options{Repo: repoDir(), Out: *out, GoBin: goBin(), Variant: *variant, Env: goEnv()})
	if err != nil {
		fmt.Fprintln(os.Stderr, "rewrite:", err)
		os.Exit(2)
	}
	fmt.Printf("overlay %s: %+v\n", ov, *st)
}
